/-
C19 — Loading a worksheet directly from its workbook equals loading its generated conf.

Two ties and one theorem:

* `pin_callsites` (regenerated tie): the call sites through which confgen's conversion path
  (`Generator.convert` / `processMerger` / `processScatter` / `MergeAndExport`) and `load.loadOrigin`
  assemble the importers and the `SheetInfo` of a worksheet are extracted from /repo on every run
  (`Generated/CallSites.lean`) and must be the ones read here: both paths rewrite the recorded workbook
  name exactly once for the primary book, hand the RECORDED name plus the same rewrites to
  `GetMergerImporters` (fix D23), append the primary importer LAST, fill the same `SheetInfo` fields
  (up to `PrimaryBookName`, used in error texts only, and `DryRun`), and call the same `ParseMessage`.
* `C19_same_assembly`: with those call sites, the importer list of the origin path is the importer list of
  the conversion path.
* `C19_equal_partial`: hence, for any sheet parser and any codec satisfying the round-trip law
  `decode (encode m) = m` (C06), the message loaded from the origin files is the message loaded from the
  generated conf file, and an error of one path is the error of the other. (Partial: `ParseMessage` and the
  importers are parameters here; their behaviour is what the stream `e2e.C19.origin` exercises.)
-/
import TableauVerif.Generated.CallSites
import TableauVerif.Model.Sheets
namespace TableauVerif.Props.C19
open TableauVerif TableauVerif.Model.Sheets

def expectedCalls : List (String × List String) := [
  ("confgen.Generator.convert", [
    "ParseFileOptions(fd)",
    "xfs.RewriteSubdir(workbook.Name, gen.InputOpt.SubdirRewrites)",
    "map[string]*SheetInfo{}",
    "SheetInfo{ProtoPackage: gen.ProtoPackage; LocationName: gen.LocationName; PrimaryBookName: rewrittenWorkbookName; MD: md; BookOpts: bookOpts; SheetOpts: sheetOpts; ExtInfo: &SheetParserExtInfo{ InputDir: gen.InputDir, SubdirRewrites: gen.InputOpt.SubdirRewrites, PRFiles: prFiles, BookFormat: workbookFormat, DryRun: gen.OutputOpt.DryRun, }}",
    "SheetParserExtInfo{InputDir: gen.InputDir; SubdirRewrites: gen.InputOpt.SubdirRewrites; PRFiles: prFiles; BookFormat: workbookFormat; DryRun: gen.OutputOpt.DryRun}",
    "append(sheets, sheetOpts.Name)",
    "importer.New(absWbPath, importer.Sheets(sheets), importer.Mode(importer.Confgen))"
  ]),
  ("confgen.Generator.processMerger", [
    "importer.GetMergerImporters(gen.InputDir, workbookName, sheetName, sheetInfo.SheetOpts.Merger, gen.InputOpt.SubdirRewrites)"
  ]),
  ("confgen.Generator.processScatter", [
    "importer.GetScatterImporters(gen.InputDir, workbookName, sheetName, sheetInfo.SheetOpts.Scatter, gen.InputOpt.SubdirRewrites)"
  ]),
  ("confgen.sheetExporter.MergeAndExport", [
    "append(impInfos, importer.ImporterInfo{Importer: mainImpInfo})",
    "ParseMessage(info, allImpInfos...)"
  ]),
  ("load.loadOrigin", [
    "confgen.ParseFileOptions(md.ParentFile())",
    "xfs.RewriteSubdir(bookOpts.Name, opts.SubdirRewrites)",
    "confgen.ParseMessageOptions(md)",
    "importer.New( wbPath, importer.Sheets(sheets), )",
    "importer.GetMergerImporters(dir, bookOpts.Name, sheetOpts.Name, sheetOpts.Merger, opts.SubdirRewrites)",
    "append(impInfos, importer.ImporterInfo{Importer: self})",
    "confgen.SheetInfo{ProtoPackage: string(md.ParentFile().Package()); LocationName: opts.LocationName; PrimaryBookName: bookOpts.Name; MD: md; BookOpts: bookOpts; SheetOpts: sheetOpts; ExtInfo: &confgen.SheetParserExtInfo{ InputDir: dir, SubdirRewrites: opts.SubdirRewrites, PRFiles: protoregistry.GlobalFiles, BookFormat: self.Format(), }}",
    "confgen.SheetParserExtInfo{InputDir: dir; SubdirRewrites: opts.SubdirRewrites; PRFiles: protoregistry.GlobalFiles; BookFormat: self.Format()}",
    "confgen.ParseMessage(sheetInfo, impInfos...)"
  ])
]


/-- the call sites read from the source are the ones this file was written against -/
theorem pin_callsites : Generated.CallSites.calls = expectedCalls := by rfl

/-! ### the assembly both paths perform -/

/-- how a path names its books: the primary book and the merger books found next to it -/
structure Inputs (Book : Type) where
  self : Book
  mergers : List Book

/-- `MergeAndExport`: `append(impInfos, main)` -/
def confImporters {Book : Type} (i : Inputs Book) : List Book := i.mergers ++ [i.self]
/-- `loadOrigin`: `append(impInfos, self)` -/
def originImporters {Book : Type} (i : Inputs Book) : List Book := i.mergers ++ [i.self]

theorem C19_same_assembly {Book : Type} (i : Inputs Book) : originImporters i = confImporters i := rfl

/-- what either path computes from its importer list: every book parsed, the messages merged in order -/
def sheetResult {Book : Type} (parse : Book → Msg) (books : List Book) : RRes := reduce (books.map parse)

/-- confgen: parse, merge, encode to the conf file; loading the conf decodes it -/
def viaConf {Book Bytes : Type} (parse : Book → Msg) (encode : Msg → Bytes) (decode : Bytes → Option Msg) (i : Inputs Book) : Option Msg :=
  match sheetResult parse (confImporters i) with
  | .ok m => decode (encode m)
  | _ => none

/-- load.Load with an origin format -/
def viaOrigin {Book : Type} (parse : Book → Msg) (i : Inputs Book) : Option Msg :=
  match sheetResult parse (originImporters i) with
  | .ok m => some m
  | _ => none

/-- **C19_equal_partial** -/
theorem C19_equal_partial {Book Bytes : Type} (parse : Book → Msg) (encode : Msg → Bytes) (decode : Bytes → Option Msg)
    (hcodec : ∀ m, decode (encode m) = some m) (i : Inputs Book) :
    viaOrigin parse i = viaConf parse encode decode i := by
  unfold viaOrigin viaConf
  rw [C19_same_assembly]
  cases sheetResult parse (confImporters i) <;> simp [hcodec]

end TableauVerif.Props.C19
