/-
C12 — the `sequence:N` constraint over a whole map: `CheckMapKeySequence` is applied to every new key against the keys
already in the map (first key = N; later keys: the predecessor must be present), and keys are unique. Folded over the
rows this accepts exactly the key lists N, N+1, N+2, … (`C12_sequence_iff`) — whatever the per-key rule looks like,
no other order and no gap gets through. Tied to the code by `corr.fieldprop.range` (the per-key rule) and
`e2e.C12.sequence` (whole sheets through the real GenProto + GenConf).
-/
import TableauVerif.Model.FieldProp
namespace TableauVerif.Props.C12Seq
open TableauVerif TableauVerif.Model.FieldProp

/-- the fold over the rows: every key must be new and pass `checkSequence` against the keys so far -/
def runSeq (s : Int) : List Int → List Int → Bool
  | [], _ => true
  | k :: ks, acc => !acc.contains k && checkSequence (some s) k acc && runSeq s ks (k :: acc)

/-- `s, s+1, …, s+n-1` -/
def upFrom (s : Int) : Nat → List Int
  | 0 => []
  | n + 1 => s :: upFrom (s + 1) n

theorem runSeq_iff (s : Int) : ∀ (keys acc : List Int) (m : Nat),
    acc.length = m → (∀ x, x ∈ acc ↔ (s ≤ x ∧ x < s + m)) →
    (runSeq s keys acc = true ↔ keys = upFrom (s + m) keys.length)
  | [], _, _, _, _ => by simp [runSeq, upFrom]
  | k :: ks, acc, m, hlen, hmem => by
    have hstep : (!acc.contains k && checkSequence (some s) k acc) = true ↔ k = s + m := by
      simp only [checkSequence, Bool.and_eq_true, Bool.not_eq_true', List.contains_eq_mem, decide_eq_false_iff_not]
      cases acc with
      | nil =>
        have : m = 0 := by simpa using hlen.symm
        subst this
        simp
        constructor
        · intro h; omega
        · intro h; omega
      | cons a as =>
        have hm : 0 < m := by rw [← hlen]; simp
        simp only [List.isEmpty_cons, Bool.false_eq_true, if_false, decide_eq_true_eq]
        rw [hmem k, hmem (k - 1)]
        constructor
        · intro ⟨h1, h2⟩; omega
        · intro h; subst h; constructor <;> omega
    rw [runSeq, Bool.and_eq_true, hstep]
    constructor
    · rintro ⟨hk, hrest⟩
      have ih := (runSeq_iff s ks (k :: acc) (m + 1) (by simp [hlen]) (by
        intro x
        simp only [List.mem_cons, hmem x]
        constructor
        · rintro (h | h) <;> omega
        · intro h; by_cases hx : x = k
          · left; exact hx
          · right; omega)).mp hrest
      have hc : s + ((m + 1 : Nat) : Int) = s + m + 1 := by omega
      rw [hc, ← hk] at ih
      simp only [List.length_cons, upFrom]
      rw [← hk]
      exact congrArg (List.cons k) ih
    · intro h
      simp only [List.length_cons, upFrom, List.cons.injEq] at h
      refine ⟨h.1, ?_⟩
      apply (runSeq_iff s ks (k :: acc) (m + 1) (by simp [hlen]) (by
        intro x
        simp only [List.mem_cons, hmem x]
        constructor
        · rintro (h' | h') <;> omega
        · intro h'; by_cases hx : x = k
          · left; exact hx
          · right; omega)).mpr
      have hc : s + ((m + 1 : Nat) : Int) = s + m + 1 := by omega
      rw [hc]
      exact h.2

/-- **C12_sequence_iff**: a map declared `sequence:N` accepts exactly the key lists `N, N+1, N+2, …` -/
theorem C12_sequence_iff (s : Int) (keys : List Int) :
    runSeq s keys [] = true ↔ keys = upFrom s keys.length := by
  have := runSeq_iff s keys [] 0 rfl (by intro x; simp)
  simpa using this

-- tests (labelled as tests)
example : runSeq 0 [0, 1, 2] [] = true ∧ runSeq 0 [1, 2] [] = false ∧ runSeq 5 [5, 6, 8] [] = false ∧ runSeq 1 [1, 3, 2] [] = false := by
  decide

end TableauVerif.Props.C12Seq
