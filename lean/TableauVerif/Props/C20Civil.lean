/-
C20 (continued) — the calendar arithmetic under every date cell.

`C20_civil_roundtrip`: for every proleptic Gregorian date (any year, month 1..12, day within the month,
leap years by the 4/100/400 rule), converting the date to a day number (`daysFromCivil`, what the model of
`time.Date` uses) and back (`civilFromDays`, what rendering uses) gives the date again. So two valid
calendar dates never share a day number (`C20_days_injective`): a date cell denotes one day.

The year-of-era recovery is settled by a kernel-checked table over the 400 × 366 (year of era, day of year)
pairs (`decide +kernel`, ≈ 1 min), lifted to all years by the era decomposition; everything else is linear
integer arithmetic (`omega`).
-/
import TableauVerif.Model.Time
import TableauVerif.Props.C20Table
namespace TableauVerif.Props.C20
open TableauVerif TableauVerif.Model.Time

/-- `civilFromDays` in named steps -/
theorem civilFromDays_eq (z0 era doe yoe doy mp d m : Int)
    (h1 : era = (z0 + 719468) / 146097) (h2 : doe = (z0 + 719468) - era * 146097)
    (h3 : yoe = (doe - doe / 1460 + doe / 36524 - doe / 146096) / 365)
    (h4 : doy = doe - (365 * yoe + yoe / 4 - yoe / 100)) (h5 : mp = (5 * doy + 2) / 153)
    (h6 : d = doy - (153 * mp + 2) / 5 + 1) (h7 : m = if mp < 10 then mp + 3 else mp - 9) :
    civilFromDays z0 = (if m ≤ 2 then yoe + era * 400 + 1 else yoe + era * 400, m, d) := by
  subst h1 h2 h3 h4 h5 h6 h7
  rfl

theorem dim_cases (y m : Int) (hm1 : 1 ≤ m) (hm2 : m ≤ 12) :
    (m = 2 ∧ (daysInMonth y m = 29 ∧ isLeap y = true ∨ daysInMonth y m = 28)) ∨
    ((m = 4 ∨ m = 6 ∨ m = 9 ∨ m = 11) ∧ daysInMonth y m = 30) ∨
    ((m = 1 ∨ m = 3 ∨ m = 5 ∨ m = 7 ∨ m = 8 ∨ m = 10 ∨ m = 12) ∧ daysInMonth y m = 31) := by
  unfold daysInMonth
  by_cases h2 : m = 2
  · subst h2
    left
    refine ⟨rfl, ?_⟩
    cases hl : isLeap y <;> simp
  · right
    have : (m == 2) = false := by simpa using h2
    simp only [this, Bool.false_eq_true, if_false]
    by_cases h30 : m = 4 ∨ m = 6 ∨ m = 9 ∨ m = 11
    · left
      refine ⟨h30, ?_⟩
      rcases h30 with h | h | h | h <;> subst h <;> rfl
    · right
      have hne : ¬ (m = 4) ∧ ¬ (m = 6) ∧ ¬ (m = 9) ∧ ¬ (m = 11) := by
        refine ⟨?_, ?_, ?_, ?_⟩ <;> (intro h; exact h30 (by simp [h]))
      refine ⟨by omega, ?_⟩
      have e4 : (m == 4) = false := by simpa using hne.1
      have e6 : (m == 6) = false := by simpa using hne.2.1
      have e9 : (m == 9) = false := by simpa using hne.2.2.1
      have e11 : (m == 11) = false := by simpa using hne.2.2.2
      simp [e4, e6, e9, e11]

/-- the day of the (March-based) year determines month and day -/
theorem month_facts (y m d : Int) (hm1 : 1 ≤ m) (hm2 : m ≤ 12) (hd1 : 1 ≤ d) (hd2 : d ≤ daysInMonth y m)
    (mp doy : Int) (hmp : mp = if m > 2 then m - 3 else m + 9) (hdoy : doy = (153 * mp + 2) / 5 + d - 1) :
    0 ≤ doy ∧ doy ≤ 365 ∧ (doy = 365 → (m = 2 ∧ isLeap y = true)) ∧ mp = (5 * doy + 2) / 153 ∧
      d = doy - (153 * mp + 2) / 5 + 1 := by
  rcases dim_cases y m hm1 hm2 with ⟨h2, hl⟩ | ⟨h30, hl⟩ | ⟨h31, hl⟩
  · subst h2
    simp only [show ¬ ((2 : Int) > 2) from by omega, if_false] at hmp
    subst hmp hdoy
    rcases hl with ⟨hl, hleap⟩ | hl
    · rw [hl] at hd2
      refine ⟨by omega, by omega, fun _ => ⟨rfl, hleap⟩, by omega, by omega⟩
    · rw [hl] at hd2
      refine ⟨by omega, by omega, fun h => by omega, by omega, by omega⟩
  · rw [hl] at hd2
    have hmp' : mp = m - 3 := by rw [hmp]; split <;> omega
    subst hmp' hdoy
    refine ⟨by omega, by omega, fun h => by omega, by omega, by omega⟩
  · rw [hl] at hd2
    by_cases h1 : m = 1
    · subst h1
      have hmp' : mp = 10 := by rw [hmp]; split <;> omega
      subst hmp' hdoy
      refine ⟨by omega, by omega, fun h => by omega, by omega, by omega⟩
    · have hmp' : mp = m - 3 := by rw [hmp]; split <;> omega
      subst hmp' hdoy
      refine ⟨by omega, by omega, fun h => by omega, by omega, by omega⟩

/-- **C20_civil_roundtrip** -/
theorem C20_civil_roundtrip (y m d : Int) (hm1 : 1 ≤ m) (hm2 : m ≤ 12) (hd1 : 1 ≤ d) (hd2 : d ≤ daysInMonth y m) :
    civilFromDays (daysFromCivil y m d) = (y, m, d) := by
  -- the steps of daysFromCivil
  let y' : Int := if m ≤ 2 then y - 1 else y
  let era : Int := y' / 400
  let yoe : Int := y' - era * 400
  let mp : Int := if m > 2 then m - 3 else m + 9
  let doy : Int := (153 * mp + 2) / 5 + d - 1
  let doe : Int := yoe * 365 + yoe / 4 - yoe / 100 + doy
  have hdays : daysFromCivil y m d = era * 146097 + doe - 719468 := rfl
  have hyoe0 : 0 ≤ yoe := by simp only [yoe, era]; omega
  have hyoe1 : yoe ≤ 399 := by simp only [yoe, era]; omega
  have hy : y = yoe + era * 400 + (if m ≤ 2 then 1 else 0) := by simp only [yoe, era, y']; split <;> omega
  -- day of year: bounds, and day 365 only for 29 February of a leap year
  have hleap : isLeap y = true ↔ (y % 4 = 0 ∧ (y % 100 ≠ 0 ∨ y % 400 = 0)) := by
    simp only [isLeap, Bool.or_eq_true, Bool.and_eq_true, beq_iff_eq, bne_iff_ne, ne_eq]
    omega
  have hdoy := month_facts y m d hm1 hm2 hd1 hd2 mp doy rfl rfl
  obtain ⟨hdoy0, hdoy1, hdoy365, hmpEq, hdEq⟩ := hdoy
  -- lift to naturals for the table
  obtain ⟨yn, hyn⟩ : ∃ n : Nat, yoe = n := ⟨yoe.toNat, by omega⟩
  obtain ⟨dn, hdn⟩ : ∃ n : Nat, doy = n := ⟨doy.toNat, by omega⟩
  have hleapNext : dn = 365 → leapNext yn = true := by
    intro h365
    have h := hdoy365 (by omega)
    have hl := hleap.mp h.2
    have hm2' : m = 2 := h.1
    simp only [hm2', show ((2 : Int) ≤ 2) from by omega, if_true] at hy
    simp only [leapNext, Bool.and_eq_true, beq_iff_eq, Bool.or_eq_true, bne_iff_ne, ne_eq]
    omega
  have hrec := yoe_int yn dn (by omega) (by omega) hleapNext
  simp only at hrec
  rw [← hyn, ← hdn] at hrec
  have hdoe0 : 0 ≤ doe := by simp only [doe]; omega
  have hdoe1 : doe < 146097 := by simp only [doe]; omega
  rw [hdays]
  have hm' : m = if mp < 10 then mp + 3 else mp - 9 := by simp only [mp]; split <;> split <;> omega
  have hres := civilFromDays_eq (era * 146097 + doe - 719468) era doe yoe doy mp d m
    (by omega) (by omega) (by rw [hrec]) (by simp only [doe]; omega)
    hmpEq
    hdEq hm'
  rw [hres, hy]
  split <;> simp_all <;> omega

/-- **C20_days_injective**: two valid calendar dates with the same day number are the same date -/
theorem C20_days_injective (y m d y' m' d' : Int)
    (h1 : 1 ≤ m ∧ m ≤ 12 ∧ 1 ≤ d ∧ d ≤ daysInMonth y m) (h2 : 1 ≤ m' ∧ m' ≤ 12 ∧ 1 ≤ d' ∧ d' ≤ daysInMonth y' m')
    (h : daysFromCivil y m d = daysFromCivil y' m' d') : y = y' ∧ m = m' ∧ d = d' := by
  have a := C20_civil_roundtrip y m d h1.1 h1.2.1 h1.2.2.1 h1.2.2.2
  have b := C20_civil_roundtrip y' m' d' h2.1 h2.2.1 h2.2.2.1 h2.2.2.2
  rw [h] at a
  have := a.symm.trans b
  simp only [Prod.mk.injEq] at this
  exact this

/-- **C20_wall_injective**: two valid wall clocks (date and time of day) that denote the same number of seconds
are the same wall clock: in a fixed-offset zone a date-time cell denotes exactly one instant and an instant is
written by exactly one cell -/
theorem C20_wall_injective (w w' : Wall) (hv : w.valid = true) (hv' : w'.valid = true) (h : w.asUTC = w'.asUTC) : w = w' := by
  simp only [Wall.valid, Bool.and_eq_true, decide_eq_true_eq] at hv hv'
  obtain ⟨⟨⟨⟨⟨⟨⟨⟨⟨a1, a2⟩, a3⟩, a4⟩, a5⟩, a6⟩, a7⟩, a8⟩, a9⟩, a10⟩ := hv
  obtain ⟨⟨⟨⟨⟨⟨⟨⟨⟨b1, b2⟩, b3⟩, b4⟩, b5⟩, b6⟩, b7⟩, b8⟩, b9⟩, b10⟩ := hv'
  simp only [Wall.asUTC] at h
  have hdays : daysFromCivil w.y w.mo w.d = daysFromCivil w'.y w'.mo w'.d := by omega
  have hdate := C20_days_injective w.y w.mo w.d w'.y w'.mo w'.d ⟨a1, a2, a3, a4⟩ ⟨b1, b2, b3, b4⟩ hdays
  have hh : w.h = w'.h := by omega
  have hmi : w.mi = w'.mi := by omega
  have hs : w.s = w'.s := by omega
  cases w; cases w'
  simp_all

-- non-vacuity: 29 February 2024, 31 December 1999, 1 January of year 0
example : civilFromDays (daysFromCivil 2024 2 29) = (2024, 2, 29) ∧ civilFromDays (daysFromCivil 1999 12 31) = (1999, 12, 31)
    ∧ civilFromDays (daysFromCivil 0 1 1) = (0, 1, 1) ∧ daysFromCivil 1970 1 1 = 0 := by decide

end TableauVerif.Props.C20
