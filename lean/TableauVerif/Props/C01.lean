/-
C01 — Sheet data fidelity: the generated conf equals the cell contents.

The full statement is the round trip `parse (Spec.C01.write m) = ok m` for every schema in the type
DSL and every canonical message `m` (exercised at full generality by the stream `e2e.C01.roundtrip`
against the real parser). Proved here: the scalar layer — every canonical scalar literal written in a
cell is read back as exactly its value, and a row of scalar columns yields exactly the message whose
fields are the non-blank cells (`C01_flat_scalars_partial`).
-/
import TableauVerif.Model.TableParser
import TableauVerif.Spec.C01
import TableauVerif.Props.C03
import TableauVerif.Props.C12
namespace TableauVerif.Props.C01
open TableauVerif TableauVerif.Val TableauVerif.Model.TableParser TableauVerif.Spec.C01
open TableauVerif.Model.Literal

/-- well-formed populated scalar value of a kind: in range, non-zero (zero = unpopulated) -/
def wfScalar : SKind → Val → Bool
  | .int32, .int n => Spec.C03.inRange .int32 n && n != 0
  | .uint32, .int n => Spec.C03.inRange .uint32 n && n != 0
  | .int64, .int n => Spec.C03.inRange .int64 n && n != 0
  | .uint64, .int n => Spec.C03.inRange .uint64 n && n != 0
  | .bool, .int n => n == 1
  | .string, .str s => !s.isEmpty
  | _, _ => false

theorem scalarText_int (k : SKind) (n : Int) (hk : k ≠ .bool) (hs : k ≠ .string) :
    scalarText k (some (.int n)) = Spec.C03.decimalInt n := by
  cases k <;> simp_all [scalarText, Spec.C03.decimalInt]

/-- **C01_scalar_roundtrip**: a populated scalar written by the specification's writer is read back by
the literal parser as exactly that value, present. -/
theorem C01_scalar_roundtrip (k : SKind) (v : Val) (h : wfScalar k v = true) :
    parseLit k (scalarText k (some v)) = .ok (v, true) := by
  cases k with
  | int32 =>
    cases v <;> simp [wfScalar] at h
    rename_i n
    rw [scalarText_int _ _ (by decide) (by decide)]
    simp [parseLit, toLitKind, Props.C03.C03_int32_exact n h.1]
  | uint32 =>
    cases v <;> simp [wfScalar] at h
    rename_i n
    rw [scalarText_int _ _ (by decide) (by decide)]
    simp [parseLit, toLitKind, Props.C03.C03_uint32_exact n h.1]
  | int64 =>
    cases v <;> simp [wfScalar] at h
    rename_i n
    rw [scalarText_int _ _ (by decide) (by decide)]
    simp [parseLit, toLitKind, Props.C03.C03_int64_exact n h.1]
  | uint64 =>
    cases v <;> simp [wfScalar] at h
    rename_i n
    rw [scalarText_int _ _ (by decide) (by decide)]
    simp [parseLit, toLitKind, Props.C03.C03_uint64_exact n h.1]
  | bool =>
    cases v <;> simp [wfScalar] at h
    subst h
    rfl
  | string =>
    cases v <;> simp [wfScalar] at h
    rename_i s
    simp [parseLit, toLitKind, scalarText, h]

/-- a blank cell is an absent scalar, never an error -/
theorem C01_blank_absent (k : SKind) : parseLit k [] = .ok (zeroOf k, false) := by
  cases k <;> rfl

/-! ### a row of scalar columns -/

/-- a plain scalar column: singular, no field property -/
def flatField (num : Nat) (name : Str) (k : SKind) : TField :=
  .mk num name [] .one .dflt false (some k) none [] {} [] [] [] name

theorem wf_not_zero (k : SKind) (v : Val) (h : wfScalar k v = true) : isZero v = false := by
  cases k <;> cases v <;> simp [wfScalar] at h <;> simp [isZero]
  all_goals (try (rename_i n; cases n <;> simp_all))
  all_goals (try (rename_i s; cases s <;> simp_all))

theorem checkInRange_none (k : Model.FieldProp.RKind) (v : Int) (p pp : Bool) :
    Model.FieldProp.checkInRange [] k v p pp = Model.FieldProp.RRes.ok :=
  TableauVerif.Props.C12.C12_norange_ok k v p pp

theorem parseFieldValue_noprop (k : SKind) (raw : Str) (v : Val) (b : Bool) (h : parseLit k raw = .ok (v, b)) :
    parseFieldValue k raw (some {}) = .ok (v, b) := by
  unfold parseFieldValue
  simp [h, bind, Except.bind, pure, Except.pure, checkInRange_none]

/-- a populated cell sets exactly its field -/
theorem parseField_flat_present (c : Ctx) (acc : RowAcc) (num : Nat) (name : Str) (k : SKind) (m : Msg) (v : Val)
    (hdat : acc.dat name = some (scalarText k (some v))) (hwf : wfScalar k v = true) (hnot : has m num = false) :
    parseField c acc (flatField num name k) m [] = .ok (setF m num v, true) := by
  have hp := parseFieldValue_noprop k _ v true (C01_scalar_roundtrip k v hwf)
  have hz := wf_not_zero k v hwf
  simp [flatField, parseField, hnot, cellOf, hdat, hp, wrapCol, bind, Except.bind, pure, Except.pure, setScalar, hz]

/-- a blank cell leaves the message untouched -/
theorem parseField_flat_blank (c : Ctx) (acc : RowAcc) (num : Nat) (name : Str) (k : SKind) (m : Msg)
    (hdat : acc.dat name = some []) (hnot : has m num = false) :
    parseField c acc (flatField num name k) m [] = .ok (m, false) := by
  have hp := parseFieldValue_noprop k [] (zeroOf k) false (C01_blank_absent k)
  simp [flatField, parseField, hnot, cellOf, hdat, hp, wrapCol, bind, Except.bind, pure, Except.pure]

/-- one column of a flat sheet: field number, column name, kind, and what the cell states -/
structure Col where
  num : Nat
  name : Str
  kind : SKind
  val : Option Val

def Col.field (c : Col) : TField := flatField c.num c.name c.kind
def Col.text (c : Col) : Str := match c.val with | some v => scalarText c.kind (some v) | none => []

/-- the message a row of scalar cells states: exactly the populated cells, in column order -/
def stated : List Col → Msg
  | [] => []
  | c :: rest => match c.val with
    | some v => (c.num, v) :: stated rest
    | none => stated rest

/-- appending a field with a larger number at the end -/
theorem setF_append (m : Msg) (n : Nat) (v : Val) (h : ∀ kv ∈ m, kv.1 < n) : setF m n v = m ++ [(n, v)] := by
  induction m with
  | nil => rfl
  | cons kv rest ih =>
    obtain ⟨k, w⟩ := kv
    have hk : k < n := h (k, w) (by simp)
    have h1 : ¬ n < k := by omega
    have h2 : ¬ n = k := by omega
    simp [setF, h1, h2, ih (fun x hx => h x (by simp [hx]))]

theorem has_false_of_lt (m : Msg) (n : Nat) (h : ∀ kv ∈ m, kv.1 < n) : has m n = false := by
  induction m with
  | nil => rfl
  | cons kv rest ih =>
    obtain ⟨k, w⟩ := kv
    have hk : k < n := h (k, w) (by simp)
    have : ¬ k = n := by omega
    have ih' := ih (fun x hx => h x (by simp [hx]))
    simp [has, getF, this] at ih' ⊢
    exact ih'

theorem stated_lt (cols : List Col) (n : Nat) (h : ∀ c ∈ cols, c.num < n) : ∀ kv ∈ stated cols, kv.1 < n := by
  induction cols with
  | nil => intro kv hkv; simp [stated] at hkv
  | cons c rest ih =>
    intro kv hkv
    unfold stated at hkv
    cases hv : c.val with
    | none => rw [hv] at hkv; exact ih (fun x hx => h x (by simp [hx])) kv hkv
    | some v =>
      rw [hv] at hkv
      cases hkv with
      | head => exact h c (by simp)
      | tail _ h' => exact ih (fun x hx => h x (by simp [hx])) kv h'

/-- **C01_flat_scalars_partial**: for a row of scalar columns (ascending field numbers, every populated
cell a canonical literal of its kind, the row exposing each column's text under its name), the table
parser builds exactly the message the cells state — every value once, at its field, nothing else —
starting from any message `m0` of smaller field numbers.
(Partial: the scalar layer of C01; aggregates are covered by the round-trip stream, not yet by a theorem.) -/
theorem C01_flat_scalars_partial (c : Ctx) (acc : RowAcc) (cols : List Col) (m0 : Msg)
    (hsorted : (cols.map (·.num)).Pairwise (· < ·))
    (hm0 : ∀ kv ∈ m0, ∀ col ∈ cols, kv.1 < col.num)
    (hdat : ∀ col ∈ cols, acc.dat col.name = some col.text)
    (hwf : ∀ col ∈ cols, ∀ v, col.val = some v → wfScalar col.kind v = true) :
    parseFields c acc (cols.map Col.field) m0 [] = .ok (m0 ++ stated cols, cols.any (·.val.isSome)) := by
  induction cols generalizing m0 with
  | nil => simp [parseFields, stated]
  | cons col rest ih =>
    simp only [List.map_cons, List.pairwise_cons] at hsorted
    have hnot : has m0 col.num = false := has_false_of_lt m0 col.num (fun kv hkv => hm0 kv hkv col (by simp))
    simp only [List.map_cons, parseFields, Col.field]
    cases hv : col.val with
    | none =>
      have hd : acc.dat col.name = some [] := by
        have := hdat col (by simp); simpa [Col.text, hv] using this
      rw [parseField_flat_blank c acc col.num col.name col.kind m0 hd hnot]
      have := ih m0 hsorted.2 (fun kv hkv x hx => hm0 kv hkv x (by simp [hx]))
        (fun x hx => hdat x (by simp [hx])) (fun x hx => hwf x (by simp [hx]))
      simp [bind, Except.bind, pure, Except.pure, this, stated, hv]
    | some v =>
      have hd : acc.dat col.name = some (scalarText col.kind (some v)) := by
        have := hdat col (by simp); simpa [Col.text, hv] using this
      have hw := hwf col (by simp) v hv
      rw [parseField_flat_present c acc col.num col.name col.kind m0 v hd hw hnot]
      have happ : setF m0 col.num v = m0 ++ [(col.num, v)] :=
        setF_append m0 col.num v (fun kv hkv => hm0 kv hkv col (by simp))
      have := ih (m0 ++ [(col.num, v)]) hsorted.2
        (fun kv hkv x hx => by
          rw [List.mem_append] at hkv
          cases hkv with
          | inl h1 => exact hm0 kv h1 x (by simp [hx])
          | inr h2 => simp at h2; subst h2; exact hsorted.1 x.num (List.mem_map_of_mem hx))
        (fun x hx => hdat x (by simp [hx])) (fun x hx => hwf x (by simp [hx]))
      simp [bind, Except.bind, pure, Except.pure, happ, this, stated, hv, List.append_assoc]

-- non-vacuity: two columns, one populated one blank
example : wfScalar .int32 (.int 7) = true ∧ (stated [⟨1, Str.ofString "ID", .int32, some (.int 7)⟩, ⟨2, Str.ofString "Name", .string, none⟩]).length = 1 := by
  decide

end TableauVerif.Props.C01
