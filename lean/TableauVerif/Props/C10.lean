/-
C10 — Layout invariance: column order, blank padding and transposition do not matter.

The core parser (`Model.TableParser.parseFields`) sees a data line only through the accessors
`Row.acc` (data by column name, element count by name prefix). The theorems below show that the
accessors — hence every parse result, value or error code — are invariant under
 (b) any permutation of the columns (header cells moving with their data),
 (c) insertion of blank-named columns anywhere (padding), and
 (a) transposition of the sheet together with the `Transpose` flag.
-/
import TableauVerif.Model.TableParser
namespace TableauVerif.Props.C10
open TableauVerif TableauVerif.Model.TableParser

abbrev Cell := Str × Str × Bool

/-! ### (b) column permutation -/

theorem lookupCells_data_eq_find (cells : List Cell) (name : Str) (k : Nat) :
    (lookupCells cells name k).map (·.2.1) = (cells.find? (fun c => c.1 == name)).map (·.2.1) := by
  induction cells generalizing k with
  | nil => simp [lookupCells]
  | cons c rest ih =>
    obtain ⟨n, d, a⟩ := c
    by_cases h : (n == name) = true
    · simp [lookupCells, List.find?, h]
    · simp [lookupCells, List.find?, h, ih]

/-- with pairwise distinct names, which cell a name finds does not depend on the column order -/
theorem find_perm (name : Str) {l₁ l₂ : List Cell} (hp : l₁.Perm l₂) (hn : (l₁.map (·.1)).Nodup) :
    l₁.find? (fun c => c.1 == name) = l₂.find? (fun c => c.1 == name) := by
  induction hp with
  | nil => rfl
  | cons x _ ih =>
    simp only [List.map_cons, List.nodup_cons] at hn
    simp only [List.find?]
    split
    · rfl
    · exact ih hn.2
  | swap x y l =>
    simp only [List.map_cons, List.nodup_cons, List.mem_cons, not_or] at hn
    simp only [List.find?]
    by_cases hx : (x.1 == name) = true <;> by_cases hy : (y.1 == name) = true
    · have h1 : x.1 = name := by simpa using hx
      have h2 : y.1 = name := by simpa using hy
      exact absurd (h2.trans h1.symm) hn.1.1
    · simp [hx, hy]
    · simp [hx, hy]
    · simp [hx, hy]
  | trans h₁ _ ih₁ ih₂ =>
    rw [ih₁ hn]
    exact ih₂ ((h₁.map (·.1)).nodup_iff.mp hn)

theorem cellCount_comm (pre : Str) (sz : Nat) (a b : Cell) :
    cellCount pre (cellCount pre sz a) b = cellCount pre (cellCount pre sz b) a := by
  unfold cellCount
  by_cases ha : pre.isPrefixOf a.1 <;> by_cases hb : pre.isPrefixOf b.1 <;> simp [ha, hb] <;> omega

theorem count_perm (pre : Str) {l₁ l₂ : List Cell} (hp : l₁.Perm l₂) :
    ∀ sz, l₁.foldl (cellCount pre) sz = l₂.foldl (cellCount pre) sz := by
  induction hp with
  | nil => intro sz; rfl
  | cons x _ ih => intro sz; simp only [List.foldl]; exact ih _
  | swap x y l => intro sz; simp only [List.foldl]; rw [cellCount_comm]
  | trans _ _ ih₁ ih₂ => intro sz; rw [ih₁, ih₂]

/-- **C10b_acc**: a data line whose columns are permuted (names pairwise distinct) presents exactly
the same accessors to the parser. -/
theorem C10b_acc (cells cells' : List Cell) (i i' : Nat) (t t' : Bool) (hp : cells.Perm cells')
    (hn : (cells.map (·.1)).Nodup) :
    ({ cells := cells, index := i, transposed := t } : Row).acc = ({ cells := cells', index := i', transposed := t' } : Row).acc := by
  unfold Row.acc
  congr 1
  · funext name
    unfold Row.lookup
    by_cases he : name.isEmpty
    · simp [he]
    · simp only [he, Bool.false_eq_true, if_false]
      rw [lookupCells_data_eq_find, lookupCells_data_eq_find, find_perm name hp hn]
  · funext pre
    unfold Row.count
    exact count_perm pre hp 0

/-- **C10b_parse**: against a fixed schema, parsing a data line gives the same outcome (message,
presence, or error code with the same innermost column name) after any permutation of its columns. -/
theorem C10b_parse (c : Ctx) (fields : List TField) (m : Msg) (cells cells' : List Cell) (i i' : Nat) (t t' : Bool)
    (hp : cells.Perm cells') (hn : (cells.map (·.1)).Nodup) :
    parseFields c ({ cells := cells, index := i, transposed := t } : Row).acc fields m [] =
    parseFields c ({ cells := cells', index := i', transposed := t' } : Row).acc fields m [] := by
  rw [C10b_acc cells cells' i i' t t' hp hn]

/-! ### (c) blank-named columns (padding) -/

theorem lookupCells_insert_blank (l₁ l₂ : List Cell) (d : Str) (a : Bool) (name : Str) (hne : name ≠ []) (k : Nat) :
    (lookupCells (l₁ ++ ([], d, a) :: l₂) name k).map (·.2.1) = (lookupCells (l₁ ++ l₂) name k).map (·.2.1) := by
  rw [lookupCells_data_eq_find, lookupCells_data_eq_find]
  simp only [List.find?_append, List.find?]
  have : (([] : Str) == name) = false := by
    cases name with
    | nil => exact absurd rfl hne
    | cons _ _ => rfl
  simp [this]

theorem cellCount_blank (pre : Str) (sz : Nat) (d : Str) (a : Bool) : cellCount pre sz ([], d, a) = sz := by
  unfold cellCount
  cases pre with
  | nil => simp [leadingNumber]
  | cons _ _ => simp [List.isPrefixOf]

/-- **C10c_acc**: inserting a blank-named column anywhere (trailing blank columns kept by a CSV export,
interior spacer columns) leaves the accessors unchanged (true since fix D14). -/
theorem C10c_acc (l₁ l₂ : List Cell) (d : Str) (a : Bool) (i : Nat) (t : Bool) :
    ({ cells := l₁ ++ ([], d, a) :: l₂, index := i, transposed := t } : Row).acc =
    ({ cells := l₁ ++ l₂, index := i, transposed := t } : Row).acc := by
  unfold Row.acc
  congr 1
  · funext name
    unfold Row.lookup
    by_cases he : name.isEmpty
    · simp [he]
    · simp only [he, Bool.false_eq_true, if_false]
      have hne : name ≠ [] := by intro h; rw [h] at he; simp at he
      exact lookupCells_insert_blank l₁ l₂ d a name hne 0
  · funext pre
    unfold Row.count
    simp [List.foldl_append, cellCount_blank]

theorem C10c_parse (c : Ctx) (fields : List TField) (m : Msg) (l₁ l₂ : List Cell) (d : Str) (a : Bool) (i : Nat) (t : Bool) :
    parseFields c ({ cells := l₁ ++ ([], d, a) :: l₂, index := i, transposed := t } : Row).acc fields m [] =
    parseFields c ({ cells := l₁ ++ l₂, index := i, transposed := t } : Row).acc fields m [] := by
  rw [C10c_acc]

/-- the duplicate scan only ever asks about non-blank names -/
theorem firstDupGo_congr (l : List Str) : ∀ (s₁ s₂ : List Str), (∀ n, n ≠ [] → (n ∈ s₁ ↔ n ∈ s₂)) →
    (firstDupGo l s₁).isSome = (firstDupGo l s₂).isSome := by
  induction l with
  | nil => intros; rfl
  | cons n rest ih =>
    intro s₁ s₂ h
    simp only [firstDupGo]
    by_cases hn : n = []
    · subst hn
      simp only [List.isEmpty_nil, Bool.not_true, Bool.false_and, Bool.false_eq_true, if_false]
      exact ih _ _ (fun x hx => by simp [h x hx])
    · have hne : n.isEmpty = false := by cases n <;> simp_all
      simp only [hne, Bool.not_false, Bool.true_and, List.contains_eq_mem, decide_eq_true_eq]
      by_cases hc : n ∈ s₂
      · have : n ∈ s₁ := (h n hn).mpr hc
        simp [hc, this]
      · have : n ∉ s₁ := fun h' => hc ((h n hn).mp h')
        simp only [hc, this, if_false]
        exact ih _ _ (fun x hx => by simp [h x hx])

/-- blank name cells never count as duplicates (E0003) -/
theorem firstDupGo_insert_blank (l₁ l₂ : List Str) : ∀ seen,
    (firstDupGo (l₁ ++ [] :: l₂) seen).isSome = (firstDupGo (l₁ ++ l₂) seen).isSome := by
  induction l₁ with
  | nil =>
    intro seen
    simp only [List.nil_append, firstDupGo, List.isEmpty_nil, Bool.not_true, Bool.false_and, Bool.false_eq_true, if_false]
    exact firstDupGo_congr l₂ ([] :: seen) seen (fun n hn => by
      simp only [List.mem_cons]
      constructor
      · intro h; cases h with
        | inl h => exact absurd h hn
        | inr h => exact h
      · intro h; exact Or.inr h)
  | cons n rest ih =>
    intro seen
    simp only [List.cons_append, firstDupGo]
    split
    · rfl
    · exact ih _

/-! ### lifting to whole sheets -/

theorem firstDupGo_none_of_nodup (l : List Str) : ∀ seen, l.Nodup → (∀ n ∈ l, n ∉ seen) → firstDupGo l seen = none := by
  induction l with
  | nil => intros; rfl
  | cons n rest ih =>
    intro seen hnd hdis
    simp only [List.nodup_cons] at hnd
    simp only [firstDupGo]
    have : seen.contains n = false := by
      simp only [List.contains_eq_mem, decide_eq_false_iff_not]
      exact hdis n (by simp)
    simp only [this, Bool.and_false, Bool.false_eq_true, if_false]
    apply ih _ hnd.2
    intro x hx
    simp only [List.mem_cons, not_or]
    exact ⟨fun h => hnd.1 (h ▸ hx), hdis x (by simp [hx])⟩

theorem finishErr_core (r r' : Row) (e : PErr) : (finishErr r e).core = (finishErr r' e).core := by
  unfold finishErr
  by_cases hu : (e.code == unmodelledCode) = true
  · simp [hu, PRes.core]
  · simp only [hu, Bool.false_eq_true, if_false]
    cases e.col <;> simp [PRes.core]

theorem row_cells_perm (cols cols' : Cols) (hp : cols.Perm cols') (i : Nat) :
    (cols.map (fun c => (c.1, c.2.getD i [], false) : Str × List Str → Cell)).Perm
      (cols'.map (fun c => (c.1, c.2.getD i [], false))) := hp.map _

theorem row_cells_names (cols : Cols) (i : Nat) :
    ((cols.map (fun c => (c.1, c.2.getD i [], false) : Str × List Str → Cell)).map (·.1)) = cols.map (·.1) := by
  simp [List.map_map, Function.comp_def]

theorem parseLines_perm (c : Ctx) (fields : List TField) (cols cols' : Cols) (first first' : Nat) (t t' : Bool)
    (hp : cols.Perm cols') (hn : (cols.map (·.1)).Nodup) :
    ∀ fuel i m, (parseLines c fields cols first t fuel i m).core = (parseLines c fields cols' first' t' fuel i m).core := by
  intro fuel
  induction fuel with
  | zero => intro i m; rfl
  | succ fuel ih =>
    intro i m
    simp only [parseLines]
    have hacc : (cols.row i (first + i) t).acc = (cols'.row i (first' + i) t').acc := by
      unfold Cols.row
      exact C10b_acc _ _ _ _ _ _ (row_cells_perm cols cols' hp i) (by rw [row_cells_names]; exact hn)
    have hblank : (cols.row i (first + i) t).blank = (cols'.row i (first' + i) t').blank := by
      unfold Cols.row Row.blank
      exact (row_cells_perm cols cols' hp i).all_eq
    rw [hacc, hblank]
    split
    · exact ih _ _
    · cases parseFields c (cols'.row i (first' + i) t').acc fields m [] with
      | ok r => exact ih _ _
      | error e => exact finishErr_core _ _ e

/-- **C10b_sheet**: a worksheet whose columns are permuted together with their header cells (names
pairwise distinct) converts to the same message, or fails with the same error code at the same
column name — wherever the data area starts and whatever the orientation. -/
theorem C10b_sheet (c : Ctx) (fields : List TField) (cols cols' : Cols) (n first first' : Nat) (t t' : Bool)
    (hp : cols.Perm cols') (hn : (cols.map (·.1)).Nodup) :
    (parseCols c fields cols n first t).core = (parseCols c fields cols' n first' t').core := by
  unfold parseCols firstDup
  have hn' : (cols'.map (·.1)).Nodup := (hp.map (·.1)).nodup_iff.mp hn
  rw [firstDupGo_none_of_nodup _ [] hn (by simp), firstDupGo_none_of_nodup _ [] hn' (by simp)]
  exact parseLines_perm c fields cols cols' first first' t t' hp hn n 0 []

/-- **C10c_sheet**: inserting a blank-named column (with any content) anywhere leaves the outcome unchanged -/
theorem parseLines_insert_blank (c : Ctx) (fields : List TField) (l₁ l₂ : Cols) (ds : List Str) (first : Nat) (t : Bool) :
    ∀ fuel i m, (parseLines c fields (l₁ ++ ([], ds) :: l₂) first t fuel i m).core =
      (parseLines c fields (l₁ ++ l₂) first t fuel i m).core := by
  intro fuel
  induction fuel with
  | zero => intro i m; rfl
  | succ fuel ih =>
    intro i m
    simp only [parseLines]
    have hacc : ((l₁ ++ ([], ds) :: l₂).row i (first + i) t).acc = ((l₁ ++ l₂).row i (first + i) t).acc := by
      unfold Cols.row
      simp only [List.map_append, List.map_cons]
      exact C10c_acc _ _ _ _ _ _
    have hblank : ((l₁ ++ ([], ds) :: l₂).row i (first + i) t).blank = ((l₁ ++ l₂).row i (first + i) t).blank := by
      unfold Cols.row Row.blank
      simp [List.map_append, List.all_append]
    rw [hacc, hblank]
    split
    · exact ih _ _
    · cases parseFields c ((l₁ ++ l₂).row i (first + i) t).acc fields m [] with
      | ok r => exact ih _ _
      | error e => exact finishErr_core _ _ e

theorem C10c_sheet (c : Ctx) (fields : List TField) (l₁ l₂ : Cols) (ds : List Str) (n first : Nat) (t : Bool) :
    (parseCols c fields (l₁ ++ ([], ds) :: l₂) n first t).core = (parseCols c fields (l₁ ++ l₂) n first t).core := by
  unfold parseCols firstDup
  have hd := firstDupGo_insert_blank (l₁.map (·.1)) (l₂.map (·.1)) []
  simp only [List.map_append, List.map_cons]
  cases h1 : firstDupGo (l₁.map (·.1) ++ [] :: l₂.map (·.1)) [] with
  | some n1 =>
    rw [h1] at hd
    cases h2 : firstDupGo (l₁.map (·.1) ++ l₂.map (·.1)) [] with
    | some n2 => simp [PRes.core]
    | none => rw [h2] at hd; simp at hd
  | none =>
    rw [h1] at hd
    cases h2 : firstDupGo (l₁.map (·.1) ++ l₂.map (·.1)) [] with
    | some n2 => rw [h2] at hd; simp at hd
    | none => exact parseLines_insert_blank c fields l₁ l₂ ds first t n 0 []

/-! ### (c) blank data lines -/

/-- `l` with `v` inserted before position `j` -/
def insertAt (j : Nat) (v : Str) (l : List Str) : List Str := l.take j ++ v :: l.drop j

theorem insertAt_lt (j i : Nat) (v : Str) (l : List Str) (hj : j ≤ l.length) (hi : i < j) :
    (insertAt j v l).getD i [] = l.getD i [] := by
  unfold insertAt
  simp only [List.getD_eq_getElem?_getD]
  rw [List.getElem?_append_left (by simp; omega)]
  simp [List.getElem?_take, hi]

theorem insertAt_eq (j : Nat) (v : Str) (l : List Str) (hj : j ≤ l.length) : (insertAt j v l).getD j [] = v := by
  unfold insertAt
  simp only [List.getD_eq_getElem?_getD]
  rw [List.getElem?_append_right (by simp; omega)]
  simp [Nat.min_eq_left hj]

theorem insertAt_gt (j i : Nat) (v : Str) (l : List Str) (hj : j ≤ l.length) (hi : j ≤ i) :
    (insertAt j v l).getD (i + 1) [] = l.getD i [] := by
  unfold insertAt
  simp only [List.getD_eq_getElem?_getD]
  rw [List.getElem?_append_right (by simp; omega)]
  have : i + 1 - (List.take j l).length = (i - j) + 1 := by simp [Nat.min_eq_left hj]; omega
  rw [this]
  simp only [List.getElem?_cons_succ, List.getElem?_drop]
  congr 2; omega

/-- the sheet with one more data line, inserted before line `j`: blank in every named column (any content under
blank name cells) -/
def insertLine (j : Nat) (ins : Str × List Str → Str) (cols : Cols) : Cols :=
  cols.map (fun c => (c.1, insertAt j (ins c) c.2))

theorem insertLine_row_lt (j i idx idx' : Nat) (t : Bool) (ins : Str × List Str → Str) (cols : Cols) (n : Nat)
    (hrect : ∀ c ∈ cols, c.2.length = n) (hj : j ≤ n) (hi : i < j) :
    ((insertLine j ins cols).row i idx t).cells = (cols.row i idx' t).cells := by
  unfold insertLine Cols.row
  simp only [List.map_map]
  apply List.map_congr_left
  intro c hc
  have := insertAt_lt j i (ins c) c.2 (by rw [hrect c hc]; exact hj) hi
  simp only [List.getD_eq_getElem?_getD] at this
  simp [Function.comp, this]

theorem insertLine_row_gt (j i idx idx' : Nat) (t : Bool) (ins : Str × List Str → Str) (cols : Cols) (n : Nat)
    (hrect : ∀ c ∈ cols, c.2.length = n) (hj : j ≤ n) (hi : j ≤ i) :
    ((insertLine j ins cols).row (i + 1) idx t).cells = (cols.row i idx' t).cells := by
  unfold insertLine Cols.row
  simp only [List.map_map]
  apply List.map_congr_left
  intro c hc
  have := insertAt_gt j i (ins c) c.2 (by rw [hrect c hc]; exact hj) hi
  simp only [List.getD_eq_getElem?_getD] at this
  simp [Function.comp, this]

theorem insertLine_row_blank (j idx : Nat) (t : Bool) (ins : Str × List Str → Str) (cols : Cols) (n : Nat)
    (hrect : ∀ c ∈ cols, c.2.length = n) (hj : j ≤ n) (hins : ∀ c ∈ cols, c.1 ≠ [] → ins c = []) :
    ((insertLine j ins cols).row j idx t).blank = true := by
  unfold insertLine Cols.row Row.blank
  simp only [List.map_map, List.all_map, List.all_eq_true, Function.comp, Bool.or_eq_true]
  intro c hc
  by_cases hn : c.1 = []
  · left; simp [hn]
  · right
    rw [insertAt_eq j (ins c) c.2 (by rw [hrect c hc]; exact hj), hins c hc hn]
    rfl

/-- two lines with the same cells are treated alike, whatever their sheet indices -/
theorem line_step_eq (c : Ctx) (fields : List TField) (r r' : Row) (hcells : r.cells = r'.cells) :
    r.blank = r'.blank ∧ r.acc = r'.acc := by
  refine ⟨by simp [Row.blank, hcells], ?_⟩
  have hcount : r.count = r'.count := by funext pre; simp [Row.count, hcells]
  simp only [Row.acc, Row.lookup, hcells, hcount]

/-- after the inserted line: the lines are the original ones, one index later -/
theorem parseLines_after (c : Ctx) (fields : List TField) (cols : Cols) (first : Nat) (t : Bool) (j n : Nat)
    (ins : Str × List Str → Str) (hrect : ∀ c ∈ cols, c.2.length = n) (hj : j ≤ n) :
    ∀ fuel i m, j ≤ i →
      (parseLines c fields (insertLine j ins cols) first t fuel (i + 1) m).core = (parseLines c fields cols first t fuel i m).core := by
  intro fuel
  induction fuel with
  | zero => intro i m _; rfl
  | succ fuel ih =>
    intro i m hi
    simp only [parseLines]
    obtain ⟨hb, ha⟩ := line_step_eq c fields _ _ (insertLine_row_gt j i (first + (i + 1)) (first + i) t ins cols n hrect hj hi)
    rw [hb, ha]
    split
    · exact ih _ _ (by omega)
    · cases parseFields c (cols.row i (first + i) t).acc fields m [] with
      | ok r => exact ih _ _ (by omega)
      | error e => exact finishErr_core _ _ e

/-- **C10c_rows**: a data line whose named columns are all blank — appended at the end (what a rectangular CSV
export keeps and the XLSX reader drops) or inserted anywhere — leaves the outcome unchanged, whatever field
properties the schema carries (true since fix D35). -/
theorem C10c_rows (c : Ctx) (fields : List TField) (cols : Cols) (first : Nat) (t : Bool) (j n : Nat)
    (ins : Str × List Str → Str) (hrect : ∀ c ∈ cols, c.2.length = n) (hj : j ≤ n)
    (hins : ∀ c ∈ cols, c.1 ≠ [] → ins c = []) :
    ∀ fuel i m, i ≤ j → i + fuel = n →
      (parseLines c fields (insertLine j ins cols) first t (fuel + 1) i m).core = (parseLines c fields cols first t fuel i m).core := by
  intro fuel
  induction fuel with
  | zero =>
    intro i m hi hn
    have hij : i = j := by omega
    subst hij
    simp only [parseLines, insertLine_row_blank i (first + i) t ins cols n hrect hj hins, if_true]
  | succ fuel ih =>
    intro i m hi hn
    by_cases hij : i = j
    · subst hij
      rw [parseLines]
      simp only [insertLine_row_blank i (first + i) t ins cols n hrect hj hins, if_true]
      exact parseLines_after c fields cols first t i n ins hrect hj (fuel + 1) i m (Nat.le_refl _)
    · have hlt : i < j := by omega
      rw [parseLines]
      conv => rhs; rw [parseLines]
      obtain ⟨hb, ha⟩ := line_step_eq c fields _ _ (insertLine_row_lt j i (first + i) (first + i) t ins cols n hrect hj hlt)
      simp only [hb, ha]
      split
      · exact ih _ _ (by omega) (by omega)
      · cases parseFields c (cols.row i (first + i) t).acc fields m [] with
        | ok r => exact ih _ _ (by omega) (by omega)
        | error e => exact finishErr_core _ _ e

/-- … for the whole column loop of `Parse` -/
theorem C10c_rows_sheet (c : Ctx) (fields : List TField) (cols : Cols) (first : Nat) (t : Bool) (j n : Nat)
    (ins : Str × List Str → Str) (hrect : ∀ c ∈ cols, c.2.length = n) (hj : j ≤ n)
    (hins : ∀ c ∈ cols, c.1 ≠ [] → ins c = []) :
    (parseCols c fields (insertLine j ins cols) (n + 1) first t).core = (parseCols c fields cols n first t).core := by
  unfold parseCols
  have hnames : (insertLine j ins cols).map (·.1) = cols.map (·.1) := by simp [insertLine, List.map_map, Function.comp]
  rw [hnames]
  cases firstDup (cols.map (·.1)) with
  | some nm => rfl
  | none => exact C10c_rows c fields cols first t j n ins hrect hj hins n 0 [] (by omega) (by omega)

/-! ### (a) transposition -/

theorem foldl_max_const (l : List (List Str)) (k : Nat) (h : ∀ r ∈ l, r.length = k) :
    ∀ a, l.foldl (fun a r => max a r.length) a = if l.isEmpty then a else max a k := by
  induction l with
  | nil => intro a; rfl
  | cons r rest ih =>
    intro a
    simp only [List.foldl, List.isEmpty_cons, Bool.false_eq_true, if_false]
    rw [ih (fun x hx => h x (by simp [hx])), h r (by simp)]
    by_cases he : rest.isEmpty
    · simp [he]
    · simp only [he, Bool.false_eq_true, if_false]; omega

theorem transposeGrid_length (g : Grid) : (transposeGrid g).length = g.maxCol := by
  simp [transposeGrid]

theorem transposeGrid_maxCol (g : Grid) (h : 0 < g.maxCol) : (transposeGrid g).maxCol = g.length := by
  have hne : (transposeGrid g).isEmpty = false := by
    have hl := transposeGrid_length g
    cases hg : transposeGrid g with
    | nil => rw [hg] at hl; simp at hl; omega
    | cons _ _ => rfl
  have hk := foldl_max_const (transposeGrid g) g.length (by
    intro r hr
    simp only [transposeGrid, List.mem_map, List.mem_range] at hr
    obtain ⟨c, _, hc⟩ := hr
    rw [← hc]; simp) 0
  show (transposeGrid g).foldl (fun a r => max a r.length) 0 = g.length
  rw [hk]
  simp [hne]

theorem transposeGrid_cell (g : Grid) (h : 0 < g.maxCol) (r c : Nat) : (transposeGrid g).cell c r = g.cell r c := by
  unfold Grid.cell
  rw [transposeGrid_length, transposeGrid_maxCol g h]
  by_cases hc : c < g.maxCol <;> by_cases hr : r < g.length
  · simp only [hc, hr, decide_true, Bool.and_self, if_true]
    congr 1
    simp [transposeGrid, List.getD_eq_getElem?_getD, hc, hr]
  · simp [hc, hr]
  · simp [hc, hr]
  · simp [hc, hr]

/-- the accessors of a line do not depend on its sheet index or orientation flag -/
theorem acc_indep (cells : List Cell) (i i' : Nat) (t t' : Bool) :
    ({ cells := cells, index := i, transposed := t } : Row).acc = ({ cells := cells, index := i', transposed := t' } : Row).acc := rfl

theorem parseLines_flag (c : Ctx) (fields : List TField) (cols : Cols) (first first' : Nat) (t t' : Bool) :
    ∀ fuel i m, (parseLines c fields cols first t fuel i m).core = (parseLines c fields cols first' t' fuel i m).core := by
  intro fuel
  induction fuel with
  | zero => intro i m; rfl
  | succ fuel ih =>
    intro i m
    simp only [parseLines]
    have hacc : (cols.row i (first + i) t).acc = (cols.row i (first' + i) t').acc := acc_indep _ _ _ _ _
    have hblank : (cols.row i (first + i) t).blank = (cols.row i (first' + i) t').blank := rfl
    rw [hacc, hblank]
    split
    · exact ih _ _
    · cases parseFields c (cols.row i (first' + i) t').acc fields m [] with
      | ok r => exact ih _ _
      | error e => exact finishErr_core _ _ e

/-- the column-major view of a transposed sheet read with the flag flipped is the view of the sheet itself -/
theorem toCols_transpose (o : SheetOpts) (g : Grid) (h : 0 < g.maxCol) :
    toCols { o with transpose := !o.transpose } (transposeGrid g) = toCols o g := by
  unfold toCols
  have hcell : ∀ line pos, cellAt (transposeGrid g) { o with transpose := !o.transpose } line pos = cellAt g o line pos := by
    intro line pos
    unfold cellAt
    cases ht : o.transpose <;> simp [transposeGrid_cell g h]
  have hcount : lineCount (transposeGrid g) { o with transpose := !o.transpose } = lineCount g o := by
    unfold lineCount
    cases ht : o.transpose <;> simp [transposeGrid_length, transposeGrid_maxCol g h]
  have hwidth : lineWidth (transposeGrid g) { o with transpose := !o.transpose } = lineWidth g o := by
    unfold lineWidth
    cases ht : o.transpose <;> simp [transposeGrid_length, transposeGrid_maxCol g h]
  simp only [hcount, hwidth, hcell]

theorem withCols_core (o : SheetOpts) (g : Grid) (k k' : Cols → Nat → Nat → PRes)
    (h : ∀ cols n first, (k cols n first).core = (k' cols n first).core) :
    (withCols o g k).core = (withCols o g k').core := by
  unfold withCols
  simp only []
  repeat' split
  all_goals first | rfl | exact h _ _ _

theorem withCols_transpose (o : SheetOpts) (g : Grid) (h : 0 < g.maxCol) (k : Cols → Nat → Nat → PRes) :
    withCols { o with transpose := !o.transpose } (transposeGrid g) k = withCols o g k := by
  unfold withCols
  have hcount : lineCount (transposeGrid g) { o with transpose := !o.transpose } = lineCount g o := by
    unfold lineCount
    cases ht : o.transpose <;> simp [transposeGrid_length, transposeGrid_maxCol g h]
  simp only [hcount, toCols_transpose o g h]

/-- **C10a_transpose**: a worksheet and its transposed form marked `Transpose` convert identically
(same message, or the same error code at the same column name). -/
theorem C10a_transpose (c : Ctx) (fields : List TField) (o : SheetOpts) (g : Grid) (h : 0 < g.maxCol) :
    (parse c fields { o with transpose := !o.transpose } (transposeGrid g)).core = (parse c fields o g).core := by
  unfold parse
  rw [withCols_transpose o g h]
  apply withCols_core
  intro cols n first
  unfold parseCols
  cases firstDup (cols.map (·.1)) with
  | some _ => rfl
  | none => exact parseLines_flag c fields cols _ _ _ _ _ _ _

-- non-vacuity: a concrete two-column sheet and its permutation
example : ([(Str.ofString "ID", [Str.ofString "1"]), (Str.ofString "Name", [Str.ofString "a"])] : Cols).Perm
    [(Str.ofString "Name", [Str.ofString "a"]), (Str.ofString "ID", [Str.ofString "1"])] := List.Perm.swap _ _ _

end TableauVerif.Props.C10
