/-
C16 — Results do not depend on earlier generator calls in the same process.
-/
import TableauVerif.Model.Process
import TableauVerif.Generated.Caches
import TableauVerif.Generated.Globals
namespace TableauVerif.Props.C16
open TableauVerif.Model.Process

variable {K T : Type} [DecidableEq K]

/-- cache coherence: every entry is what the pure loader gives for EVERY (inputs, name) mapped to its key -/
def Coherent (keyOf : Nat → Nat → K) (load : Nat → Nat → T) (c : Cache K T) : Prop :=
  ∀ e ∈ c.entries, ∀ inp name, keyOf inp name = e.1 → e.2 = load inp name

/-- the key determines the loader's result -/
def KeyDetermines (keyOf : Nat → Nat → K) (load : Nat → Nat → T) : Prop :=
  ∀ i n i' n', keyOf i n = keyOf i' n' → load i n = load i' n'

theorem get_coherent (keyOf : Nat → Nat → K) (load : Nat → Nat → T) (c : Cache K T)
    (hc : Coherent keyOf load c) (inp name : Nat) (t : T) (h : c.get? (keyOf inp name) = some t) :
    t = load inp name := by
  unfold Cache.get? at h
  cases hf : c.entries.find? (fun e => e.1 == keyOf inp name) with
  | none => rw [hf] at h; simp at h
  | some e =>
    rw [hf] at h
    simp at h
    have hmem := List.mem_of_find?_eq_some hf
    have hk := List.find?_some hf
    simp at hk
    rw [← h]
    exact hc e hmem inp name hk.symm

theorem step_correct (keyOf : Nat → Nat → K) (load : Nat → Nat → T) (hk : KeyDetermines keyOf load)
    (c : Cache K T) (hc : Coherent keyOf load c) (l : Lookup) :
    (step keyOf load c l).2 = load l.1 l.2 ∧ Coherent keyOf load (step keyOf load c l).1 := by
  unfold step
  cases hg : c.get? (keyOf l.1 l.2) with
  | some t => exact ⟨get_coherent keyOf load c hc l.1 l.2 t hg, hc⟩
  | none =>
    refine ⟨rfl, ?_⟩
    intro e he inp name hkey
    simp at he
    cases he with
    | inl h => subst h; exact hk _ _ _ _ hkey.symm
    | inr h => exact hc e h inp name hkey

/-- **C16_refines**: with a cache key that determines the loader's result, every lookup of every
history — whatever calls on whatever other inputs came before — works with exactly the table the
stateless loader gives for the CURRENT call's inputs. -/
theorem C16_refines (keyOf : Nat → Nat → K) (load : Nat → Nat → T) (hk : KeyDetermines keyOf load)
    (c : Cache K T) (hc : Coherent keyOf load c) (h : List Lookup) :
    (run keyOf load c h).2 = h.map (fun l => load l.1 l.2) := by
  induction h generalizing c with
  | nil => rfl
  | cons l rest ih =>
    obtain ⟨h1, h2⟩ := step_correct keyOf load hk c hc l
    simp only [run, List.map_cons]
    rw [ih _ h2, h1]

/-- the empty cache of a fresh process is coherent -/
theorem C16_fresh_coherent (keyOf : Nat → Nat → K) (load : Nat → Nat → T) : Coherent keyOf load ⟨[]⟩ := by
  intro e he; simp at he

/-- keys that contain the input identity (descriptor / registry pointer) determine the result (fix D15) -/
theorem C16_fixed_key_determines (load : Nat → Nat → T) : KeyDetermines (fun inp name => (inp, name)) load := by
  intro i n i' n' h
  simp at h
  rw [h.1, h.2]

/-- **C16_name_only_key_witness**: keyed by name only (the code before the D15 fixes), a two-call history
on different inputs reusing a name makes the second call work with the FIRST call's table. -/
theorem C16_name_only_key_witness :
    let load : Nat → Nat → Nat := fun inp _ => inp        -- the table differs between the two inputs
    (run (fun _ name => name) load ⟨[]⟩ [(1, 7), (2, 7)]).2 ≠ [(1, 7), (2, 7)].map (fun l => load l.1 l.2) := by
  decide

/-! ### tie to the source: what the two caches are keyed by (regenerated on every run) -/

/-- the enum alias cache is keyed by the descriptor (identity of the loaded proto set), and the refer
cache by proto registry pointer + input dir + refer string: both keys contain the call's input
identity, which is the hypothesis `KeyDetermines` of `C16_refines` -/
theorem pin_cache_keys :
    Generated.Caches.enumCacheKeyType = "pref.EnumDescriptor" ∧
    Generated.Caches.referCacheKeyArg = "cacheKey" ∧
    Generated.Caches.referCacheKeyDef = "cacheKey := fmt.Sprintf(\"%p|%s|%s\", input.PRFiles, input.InputDir, refer)" := by
  decide

/-! ### tie to the source: the inventory of process-wide state (regenerated on every run)

`C16_refines` is about the state a call can leave behind for the next one. In Go that is exactly the
package-level variables. The extractor lists every one of them; the copy below is the list the model was
written against. Those that are written after start-up, and how the model / the fixes account for them:

* `internal/x/xproto.enumCache`, `internal/confgen/fieldprop.referredCache` — the two caches of the model
  (`pin_cache_keys`: keyed by the call's input identity);
* `internal/importer/book.MetasheetName` — set from the options at the start of every generator call (fix D15c);
* `internal/localizer.Default`, `internal/localizer/i18n.bundles` — language set at the start of every call,
  bundles a lazily filled table of embedded files (the same content whoever loads them first);
* `internal/confgen.fieldOptionsPool`, `internal/importer/book.cellPool` — object pools: recycled objects are
  re-initialised on `Get` (the determinism stream of C04 watches that);
* `log.defaultLogger`, `log.gOpts`, `log/driver.registeredDrivers` — logging set-up, not part of any output.

Everything else is a constant table (compiled regexps, default values, error values, format lists).
A variable that is not in this list is state the model knows nothing about: the pin breaks. -/

def expectedGlobals : List (String × String × String) := [
  ("format", "InputFormats", "[]Format{…}"),
  ("format", "OutputFormats", "[]Format{…}"),
  ("format", "inputDocumentFormats", "map[Format]bool{…}"),
  ("internal/confgen", "fieldOptionsPool", "*sync.Pool"),
  ("internal/confgen/fieldprop", "referRegexp", "*regexp.Regexp"),
  ("internal/confgen/fieldprop", "referredCache", "*ReferredCache"),
  ("internal/importer", "ErrSheetNotFound", "errors.New(…)"),
  ("internal/importer", "attrRegexp", "*regexp.Regexp"),
  ("internal/importer", "defaultTopN", "uint"),
  ("internal/importer", "metasheetRegexp", "*regexp.Regexp"),
  ("internal/importer", "tagRegexp", "*regexp.Regexp"),
  ("internal/importer", "yamlSheetNameRegexp", "*regexp.Regexp"),
  ("internal/importer/book", "MetasheetName", "DefaultMetasheetName"),
  ("internal/importer/book", "cellPool", "*sync.Pool"),
  ("internal/importer/book", "newlineRegex", "*regexp.Regexp"),
  ("internal/localizer", "Default", "*Localizer"),
  ("internal/localizer/i18n", "bundles", "map[string]*Bundle"),
  ("internal/localizer/i18n", "languages", "[]string{…}"),
  ("internal/localizer/i18n", "localeFS", "embed.FS"),
  ("internal/protogen", "emptyFieldProp", "&tableaupb.FieldProp{…}"),
  ("internal/types", "boringIntegerRegexp", "regexp.MustCompile(…)"),
  ("internal/types", "enumRegexp", "regexp.MustCompile(…)"),
  ("internal/types", "keyedListRegexp", "regexp.MustCompile(…)"),
  ("internal/types", "listRegexp", "regexp.MustCompile(…)"),
  ("internal/types", "mapRegexp", "regexp.MustCompile(…)"),
  ("internal/types", "propRegexp", "regexp.MustCompile(…)"),
  ("internal/types", "scalarRegexp", "regexp.MustCompile(…)"),
  ("internal/types", "structRegexp", "regexp.MustCompile(…)"),
  ("internal/types", "typeKindMap", "map[string]Kind"),
  ("internal/types", "wellKnownMessages", "map[string]string"),
  ("internal/x/xproto", "DefaultBoolValue", "pref.Value"),
  ("internal/x/xproto", "DefaultBytesValue", "pref.Value"),
  ("internal/x/xproto", "DefaultComparatorValue", "pref.Value"),
  ("internal/x/xproto", "DefaultDurationValue", "pref.Value"),
  ("internal/x/xproto", "DefaultEnumValue", "pref.Value"),
  ("internal/x/xproto", "DefaultFloat32Value", "pref.Value"),
  ("internal/x/xproto", "DefaultFloat64Value", "pref.Value"),
  ("internal/x/xproto", "DefaultFractionValue", "pref.Value"),
  ("internal/x/xproto", "DefaultInt32Value", "pref.Value"),
  ("internal/x/xproto", "DefaultInt64Value", "pref.Value"),
  ("internal/x/xproto", "DefaultStringValue", "pref.Value"),
  ("internal/x/xproto", "DefaultTimestampValue", "pref.Value"),
  ("internal/x/xproto", "DefaultUint32Value", "pref.Value"),
  ("internal/x/xproto", "DefaultUint64Value", "pref.Value"),
  ("internal/x/xproto", "ErrDuplicateKey", "fmt.Errorf(…)"),
  ("internal/x/xproto", "enumCache", "*EnumCache"),
  ("log", "defaultLogger", "*Logger"),
  ("log", "gOpts", "*Options"),
  ("log/core", "sinkMap", "map[string]SinkType{…}"),
  ("log/driver", "registeredDrivers", "make(…)"),
  ("log/driver/zapdriver", "modeMap", "map[string]LogModeEncoder{…}"),
  ("store", "timestampPattern", "literal string"),
  ("store", "tsRegexp", "*regexp.Regexp"),
  ("xerrors", "keys", "[]string{…}")
]

theorem pin_globals : Generated.Globals.vars = expectedGlobals := by rfl

end TableauVerif.Props.C16
