/-
C16 — Results do not depend on earlier generator calls in the same process.
-/
import TableauVerif.Model.Process
import TableauVerif.Generated.Caches
namespace TableauVerif.Props.C16
open TableauVerif.Model.Process

variable {K T : Type} [DecidableEq K]

/-- cache coherence: every entry is what the pure loader gives for EVERY (inputs, name) mapped to its key -/
def Coherent (keyOf : Nat → Nat → K) (load : Nat → Nat → T) (c : Cache K T) : Prop :=
  ∀ e ∈ c.entries, ∀ inp name, keyOf inp name = e.1 → e.2 = load inp name

/-- the key determines the loader's result -/
def KeyDetermines (keyOf : Nat → Nat → K) (load : Nat → Nat → T) : Prop :=
  ∀ i n i' n', keyOf i n = keyOf i' n' → load i n = load i' n'

theorem get_coherent (keyOf : Nat → Nat → K) (load : Nat → Nat → T) (c : Cache K T)
    (hc : Coherent keyOf load c) (inp name : Nat) (t : T) (h : c.get? (keyOf inp name) = some t) :
    t = load inp name := by
  unfold Cache.get? at h
  cases hf : c.entries.find? (fun e => e.1 == keyOf inp name) with
  | none => rw [hf] at h; simp at h
  | some e =>
    rw [hf] at h
    simp at h
    have hmem := List.mem_of_find?_eq_some hf
    have hk := List.find?_some hf
    simp at hk
    rw [← h]
    exact hc e hmem inp name hk.symm

theorem step_correct (keyOf : Nat → Nat → K) (load : Nat → Nat → T) (hk : KeyDetermines keyOf load)
    (c : Cache K T) (hc : Coherent keyOf load c) (l : Lookup) :
    (step keyOf load c l).2 = load l.1 l.2 ∧ Coherent keyOf load (step keyOf load c l).1 := by
  unfold step
  cases hg : c.get? (keyOf l.1 l.2) with
  | some t => exact ⟨get_coherent keyOf load c hc l.1 l.2 t hg, hc⟩
  | none =>
    refine ⟨rfl, ?_⟩
    intro e he inp name hkey
    simp at he
    cases he with
    | inl h => subst h; exact hk _ _ _ _ hkey.symm
    | inr h => exact hc e h inp name hkey

/-- **C16_refines**: with a cache key that determines the loader's result, every lookup of every
history — whatever calls on whatever other inputs came before — works with exactly the table the
stateless loader gives for the CURRENT call's inputs. -/
theorem C16_refines (keyOf : Nat → Nat → K) (load : Nat → Nat → T) (hk : KeyDetermines keyOf load)
    (c : Cache K T) (hc : Coherent keyOf load c) (h : List Lookup) :
    (run keyOf load c h).2 = h.map (fun l => load l.1 l.2) := by
  induction h generalizing c with
  | nil => rfl
  | cons l rest ih =>
    obtain ⟨h1, h2⟩ := step_correct keyOf load hk c hc l
    simp only [run, List.map_cons]
    rw [ih _ h2, h1]

/-- the empty cache of a fresh process is coherent -/
theorem C16_fresh_coherent (keyOf : Nat → Nat → K) (load : Nat → Nat → T) : Coherent keyOf load ⟨[]⟩ := by
  intro e he; simp at he

/-- keys that contain the input identity (descriptor / registry pointer) determine the result (fix D15) -/
theorem C16_fixed_key_determines (load : Nat → Nat → T) : KeyDetermines (fun inp name => (inp, name)) load := by
  intro i n i' n' h
  simp at h
  rw [h.1, h.2]

/-- **C16_name_only_key_witness**: keyed by name only (the code before the D15 fixes), a two-call history
on different inputs reusing a name makes the second call work with the FIRST call's table. -/
theorem C16_name_only_key_witness :
    let load : Nat → Nat → Nat := fun inp _ => inp        -- the table differs between the two inputs
    (run (fun _ name => name) load ⟨[]⟩ [(1, 7), (2, 7)]).2 ≠ [(1, 7), (2, 7)].map (fun l => load l.1 l.2) := by
  decide

/-! ### tie to the source: what the two caches are keyed by (regenerated on every run) -/

/-- the enum alias cache is keyed by the descriptor (identity of the loaded proto set), and the refer
cache by proto registry pointer + input dir + refer string: both keys contain the call's input
identity, which is the hypothesis `KeyDetermines` of `C16_refines` -/
theorem pin_cache_keys :
    Generated.Caches.enumCacheKeyType = "pref.EnumDescriptor" ∧
    Generated.Caches.referCacheKeyArg = "cacheKey" ∧
    Generated.Caches.referCacheKeyDef = "cacheKey := fmt.Sprintf(\"%p|%s|%s\", input.PRFiles, input.InputDir, refer)" := by
  decide

end TableauVerif.Props.C16
