/-
C18 — incremental = full, on the model of the workbook index (`Model.Incremental`, tied by `e2e.C18.related`).

* `C18_incremental_writes_what_full_writes`: every (file, content) an incremental run writes is written identically
  by the full run.
* `C18_incremental_complete`: every primary book that reads a named workbook — as its own workbook or through a
  Merger / Scatter specifier — is converted: all its conf files are rewritten.
* `C18_incremental_confined`: a file is written only if it belongs to a primary book that reads a named workbook.
-/
import TableauVerif.Model.Incremental
namespace TableauVerif.Props.C18Incr
open TableauVerif TableauVerif.Model.Incremental

theorem mem_related (books : List PBook) (p : Str) (b : PBook) :
    b ∈ related books p ↔ b ∈ books ∧ (b.name = p ∨ p ∈ b.sources) := by
  simp [related, List.mem_filter]

theorem mem_genWorkbook (books : List PBook) (paths : List Str) (b : PBook) :
    b ∈ genWorkbook books paths ↔ b ∈ books ∧ ∃ p ∈ paths, b.name = p ∨ p ∈ b.sources := by
  simp only [genWorkbook, List.mem_flatMap, mem_related]
  constructor
  · rintro ⟨p, hp, hb, h⟩; exact ⟨hb, p, hp, h⟩
  · rintro ⟨hb, p, hp, h⟩; exact ⟨p, hp, hb, h⟩

theorem C18_incremental_writes_what_full_writes {γ : Type} (content : PBook → Str → γ) (books : List PBook)
    (paths : List Str) (e : Str × γ) (he : e ∈ written content (genWorkbook books paths)) :
    e ∈ written content (genAll books) := by
  simp only [written, List.mem_flatMap, List.mem_map] at he ⊢
  obtain ⟨b, hb, f, hf, rfl⟩ := he
  exact ⟨b, ((mem_genWorkbook books paths b).mp hb).1, f, hf, rfl⟩

theorem C18_incremental_complete {γ : Type} (content : PBook → Str → γ) (books : List PBook) (paths : List Str)
    (b : PBook) (hb : b ∈ books) (p : Str) (hp : p ∈ paths) (hreads : b.name = p ∨ p ∈ b.sources)
    (f : Str) (hf : f ∈ b.outputs) :
    (f, content b f) ∈ written content (genWorkbook books paths) := by
  simp only [written, List.mem_flatMap, List.mem_map]
  exact ⟨b, (mem_genWorkbook books paths b).mpr ⟨hb, p, hp, hreads⟩, f, hf, rfl⟩

theorem C18_incremental_confined {γ : Type} (content : PBook → Str → γ) (books : List PBook) (paths : List Str)
    (e : Str × γ) (he : e ∈ written content (genWorkbook books paths)) :
    ∃ b ∈ books, e.1 ∈ b.outputs ∧ ∃ p ∈ paths, b.name = p ∨ p ∈ b.sources := by
  simp only [written, List.mem_flatMap, List.mem_map] at he
  obtain ⟨b, hb, f, hf, rfl⟩ := he
  obtain ⟨hb', hp⟩ := (mem_genWorkbook books paths b).mp hb
  exact ⟨b, hb', hf, hp⟩

-- test (labelled as a test): a source shared by two primary books, one of them also a source of the third
example :
    let a : PBook := { name := [65], sources := [[83]], outputs := [[97]] }
    let b : PBook := { name := [66], sources := [[83], [65]], outputs := [[98]] }
    let c : PBook := { name := [67], sources := [], outputs := [[99]] }
    (genWorkbook [a, b, c] [[83]]).map (·.name) = [[65], [66]] ∧ (genWorkbook [a, b, c] [[65]]).map (·.name) = [[65], [66]] ∧
    (genWorkbook [a, b, c] [[67]]).map (·.name) = [[67]] := by decide

end TableauVerif.Props.C18Incr
