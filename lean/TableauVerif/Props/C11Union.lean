/-
C11 — the merged map is the union of the books' entries (whole run of the reduce step, any number of books and
entries), and a key that occurs in two books is reported naming exactly those two books.
Model: `Model.Sheets.reduce` (tied to the code by `e2e.C11.merge`).
-/
import TableauVerif.Model.Sheets
import TableauVerif.Props.C01Sheet
namespace TableauVerif.Props.C11Union
open TableauVerif TableauVerif.Val TableauVerif.Model.Sheets
open TableauVerif.Props.C01Sheet (keyEq_eq isKey keyEq_refl getE_setE_same getE_setE_other length_setE_new setE_ne_nil)

/-- the message of one book: its map field `n` (no field at all when the book has no entry) -/
def bookMsg (n : Nat) (es : List (Val × Val)) : Msg := if es.isEmpty then [] else [(n, .map es)]

/-- entries added one after the other -/
def addAll (dst : List (Val × Val)) (es : List (Val × Val)) : List (Val × Val) :=
  es.foldl (fun d e => setE d e.1 e.2) dst

/-- the keys of `es` are new to `dst` and pairwise different -/
def Fresh (dst es : List (Val × Val)) : Prop :=
  (∀ e ∈ es, getE dst e.1 = none) ∧ es.Pairwise (fun a b => keyEq a.1 b.1 = false ∧ keyEq b.1 a.1 = false)

theorem mergeEntries_fresh (es : List (Val × Val)) : ∀ dst, Fresh dst es → mergeEntries dst es = .ok (addAll dst es) := by
  induction es with
  | nil => intro dst _; rfl
  | cons e rest ih =>
    intro dst ⟨hnew, hpw⟩
    obtain ⟨k, v⟩ := e
    have hk : getE dst k = none := hnew (k, v) (by simp)
    have hd := List.pairwise_cons.mp hpw
    simp only [mergeEntries, hk, Option.isSome_none, Bool.false_eq_true, if_false, addAll, List.foldl_cons]
    apply ih
    refine ⟨fun x hx => ?_, hd.2⟩
    rw [getE_setE_other _ _ _ _ (hd.1 x hx).1]
    exact hnew x (by simp [hx])

theorem addAll_ne_nil (dst es : List (Val × Val)) (h : es ≠ []) : addAll dst es ≠ [] := by
  induction es generalizing dst with
  | nil => exact absurd rfl h
  | cons e rest ih =>
    simp only [addAll, List.foldl_cons]
    cases rest with
    | nil => simpa using setE_ne_nil dst e.1 e.2
    | cons e2 r2 => exact ih _ (by simp)

theorem addAll_append (dst a b : List (Val × Val)) : addAll dst (a ++ b) = addAll (addAll dst a) b := by
  simp [addAll, List.foldl_append]

/-- merging one book into the accumulated message -/
theorem mergeMsg_book (n : Nat) (acc es : List (Val × Val)) (hf : Fresh acc es) :
    mergeMsg (bookMsg n acc) (bookMsg n es) = .ok (bookMsg n (addAll acc es)) := by
  unfold bookMsg
  cases es with
  | nil => simp [mergeMsg, addAll]
  | cons e rest =>
    have hne : addAll acc (e :: rest) ≠ [] := addAll_ne_nil _ _ (by simp)
    have hne' : (addAll acc (e :: rest)).isEmpty = false := by
      cases h : addAll acc (e :: rest) with
      | nil => exact absurd h hne
      | cons _ _ => rfl
    cases acc with
    | nil =>
      simp only [List.isEmpty_nil, if_true, List.isEmpty_cons, Bool.false_eq_true, if_false, mergeMsg, getF]
      rw [mergeEntries_fresh _ _ hf]
      simp [mergeMsg, setF, hne']
    | cons a arest =>
      simp only [List.isEmpty_cons, Bool.false_eq_true, if_false, mergeMsg, getF, if_true]
      rw [mergeEntries_fresh _ _ hf]
      simp [mergeMsg, setF, hne']

/-- all entries of the books, in book order -/
def allEntries (books : List (List (Val × Val))) : List (Val × Val) := books.flatten

theorem reduceGo_union (n : Nat) (msgs : List Msg) : ∀ (books : List (List (Val × Val))) (j : Nat) (acc : List (Val × Val)),
    Fresh acc (allEntries books) →
    reduceGo msgs j (bookMsg n acc) (books.map (bookMsg n)) = .ok (bookMsg n (addAll acc (allEntries books))) := by
  intro books
  induction books with
  | nil => intro j acc _; simp [reduceGo, allEntries, addAll]
  | cons b rest ih =>
    intro j acc hf
    have hsplit : allEntries (b :: rest) = b ++ allEntries rest := by simp [allEntries]
    rw [hsplit] at hf ⊢
    have hb : Fresh acc b := ⟨fun e he => hf.1 e (by simp [he]), (List.pairwise_append.mp hf.2).1⟩
    simp only [List.map_cons, reduceGo, mergeMsg_book n acc b hb]
    rw [addAll_append]
    apply ih
    refine ⟨fun e he => ?_, (List.pairwise_append.mp hf.2).2.1⟩
    -- e is new to acc and different from every entry of b
    have h0 := hf.1 e (by simp [he])
    have hdiff : ∀ x ∈ b, keyEq x.1 e.1 = false := fun x hx => ((List.pairwise_append.mp hf.2).2.2 x hx e he).1
    clear hb hsplit
    induction b generalizing acc with
    | nil => simpa [addAll] using h0
    | cons x xs ihb =>
      simp only [addAll, List.foldl_cons]
      apply ihb
      · refine ⟨fun y hy => ?_, ?_⟩
        · have := hf.1 y (by simp at hy ⊢; rcases hy with hy | hy; exact Or.inr (Or.inl hy); exact Or.inr (Or.inr hy))
          rw [getE_setE_other]
          · exact this
          · have hp := List.pairwise_cons.mp hf.2
            exact (hp.1 y (by simp at hy ⊢; exact hy)).1
        · exact (List.pairwise_cons.mp hf.2).2
      · rw [getE_setE_other _ _ _ _ (hdiff x (by simp))]; exact h0
      · exact fun y hy => hdiff y (by simp [hy])

/-- **C11_map_union**: books whose map keys are pairwise different (within and across books) merge to the map that
holds every entry of every book — the union — whatever the number of books and entries. -/
theorem C11_map_union (n : Nat) (books : List (List (Val × Val))) (hf : Fresh [] (allEntries books)) :
    reduce (books.map (bookMsg n)) = .ok (bookMsg n (addAll [] (allEntries books))) := by
  have := reduceGo_union n (books.map (bookMsg n)) books 0 [] hf
  simpa [reduce, bookMsg] using this

/-- … and that map holds each entry under its key, and nothing else -/
theorem C11_union_complete (es : List (Val × Val)) (hk : ∀ e ∈ es, isKey e.1 = true) (hf : Fresh [] es) :
    (∀ e ∈ es, getE (addAll [] es) e.1 = some e.2) ∧ (addAll [] es).length = es.length := by
  suffices h : ∀ (dst : List (Val × Val)), Fresh dst es →
      (∀ e ∈ es, getE (addAll dst es) e.1 = some e.2) ∧ (addAll dst es).length = dst.length + es.length by
    simpa using h [] hf
  clear hf
  induction es with
  | nil => intro dst _; simp [addAll]
  | cons e rest ih =>
    intro dst ⟨hnew, hpw⟩
    have hd := List.pairwise_cons.mp hpw
    have hf' : Fresh (setE dst e.1 e.2) rest := by
      refine ⟨fun x hx => ?_, hd.2⟩
      rw [getE_setE_other _ _ _ _ (hd.1 x hx).1]; exact hnew x (by simp [hx])
    have := ih (fun x hx => hk x (by simp [hx])) (setE dst e.1 e.2) hf'
    refine ⟨fun x hx => ?_, ?_⟩
    · simp only [List.mem_cons] at hx
      rcases hx with rfl | hx
      · simp only [addAll, List.foldl_cons]
        -- the later entries have other keys
        have hkeep : ∀ (l : List (Val × Val)) (d : List (Val × Val)), (∀ y ∈ l, keyEq y.1 x.1 = false) →
            getE d x.1 = some x.2 → getE (l.foldl (fun d e => setE d e.1 e.2) d) x.1 = some x.2 := by
          intro l
          induction l with
          | nil => intro d _ h; simpa using h
          | cons y ys ihl =>
            intro d hy h
            simp only [List.foldl_cons]
            apply ihl _ (fun z hz => hy z (by simp [hz]))
            rw [getE_setE_other _ _ _ _ (hy y (by simp))]; exact h
        exact hkeep rest _ (fun y hy => (hd.1 y hy).2) (getE_setE_same dst _ _ (hk x (by simp)))
      · simpa [addAll] using this.1 x hx
    · simp only [addAll, List.foldl_cons] at this ⊢
      rw [this.2, length_setE_new dst _ _ (hnew e (by simp))]
      simp; omega

end TableauVerif.Props.C11Union

namespace TableauVerif.Props.C11Union
open TableauVerif TableauVerif.Val TableauVerif.Model.Sheets
open TableauVerif.Props.C01Sheet (keyEq_eq isKey keyEq_refl getE_setE_same getE_setE_other length_setE_new setE_ne_nil)

/-! ### a key in two books -/

theorem getE_setE_isSome (d : List (Val × Val)) (k v k' : Val) (hk : isKey k = true) (h : (getE d k').isSome = true) :
    (getE (setE d k v) k').isSome = true := by
  cases hkk : keyEq k k' with
  | true => have := keyEq_eq _ _ hkk; subst this; rw [getE_setE_same d k v hk]; rfl
  | false => rw [getE_setE_other _ _ _ _ hkk]; exact h

/-- a book with an entry whose key the accumulated map already holds cannot be merged: duplicate key -/
theorem mergeEntries_dup (es : List (Val × Val)) (hkeys : ∀ e ∈ es, isKey e.1 = true) :
    ∀ dst, (∃ e ∈ es, (getE dst e.1).isSome = true) → mergeEntries dst es = .error .dupKey := by
  induction es with
  | nil => intro dst ⟨e, he, _⟩; simp at he
  | cons x rest ih =>
    intro dst ⟨e, he, hsome⟩
    obtain ⟨k, v⟩ := x
    by_cases hx : (getE dst k).isSome = true
    · simp [mergeEntries, hx]
    · have hx' : (getE dst k).isSome = false := by simpa using hx
      simp only [mergeEntries, hx', Bool.false_eq_true, if_false]
      apply ih (fun y hy => hkeys y (by simp [hy]))
      simp only [List.mem_cons] at he
      rcases he with rfl | he
      · rw [hsome] at hx'; simp at hx'
      · exact ⟨e, he, getE_setE_isSome dst k v e.1 (hkeys (k, v) (by simp)) hsome⟩

theorem sharesKey_book (n : Nat) (ds es : List (Val × Val)) :
    sharesKey (bookMsg n ds) (bookMsg n es) = es.any (fun e => (getE ds e.1).isSome) := by
  unfold bookMsg
  cases es with
  | nil => simp [sharesKey]
  | cons e rest =>
    cases ds with
    | nil => simp [sharesKey, getF, getE]
    | cons d drest => simp [sharesKey, getF]

theorem getE_addAll_isSome (es : List (Val × Val)) (hkeys : ∀ e ∈ es, isKey e.1 = true) :
    ∀ (dst : List (Val × Val)) (k : Val), ((getE dst k).isSome = true ∨ ∃ e ∈ es, keyEq e.1 k = true) →
      (getE (addAll dst es) k).isSome = true := by
  induction es with
  | nil => intro dst k h; rcases h with h | ⟨e, he, _⟩; simpa [addAll] using h; simp at he
  | cons x rest ih =>
    intro dst k h
    simp only [addAll, List.foldl_cons]
    apply ih (fun y hy => hkeys y (by simp [hy]))
    rcases h with h | ⟨e, he, hke⟩
    · exact Or.inl (getE_setE_isSome dst x.1 x.2 k (hkeys x (by simp)) h)
    · simp only [List.mem_cons] at he
      rcases he with rfl | he
      · left
        have := keyEq_eq _ _ hke; subst this
        rw [getE_setE_same dst _ _ (hkeys e (by simp))]; rfl
      · exact Or.inr ⟨e, he, hke⟩

theorem fresh_after (acc b : List (Val × Val)) (rest : List (Val × Val)) (hf : Fresh acc (b ++ rest)) :
    Fresh (addAll acc b) rest := by
  refine ⟨fun e he => ?_, (List.pairwise_append.mp hf.2).2.1⟩
  have h0 := hf.1 e (by simp [he])
  have hdiff : ∀ x ∈ b, keyEq x.1 e.1 = false := fun x hx => ((List.pairwise_append.mp hf.2).2.2 x hx e he).1
  clear hf
  induction b generalizing acc with
  | nil => simpa [addAll] using h0
  | cons x xs ihb =>
    simp only [addAll, List.foldl_cons]
    apply ihb
    · rw [getE_setE_other _ _ _ _ (hdiff x (by simp))]; exact h0
    · exact fun y hy => hdiff y (by simp [hy])

/-- the reduce loop over a front of books with pairwise different keys, then the rest -/
theorem reduceGo_front (n : Nat) : ∀ (front : List (List (Val × Val))) (j : Nat) (acc : List (Val × Val)) (msgs : List Msg) (tail : List Msg),
    Fresh acc (allEntries front) →
    reduceGo msgs j (bookMsg n acc) (front.map (bookMsg n) ++ tail) =
      reduceGo msgs (j + front.length) (bookMsg n (addAll acc (allEntries front))) tail := by
  intro front
  induction front with
  | nil => intro j acc msgs tail _; simp [allEntries, addAll]
  | cons b rest ih =>
    intro j acc msgs tail hf
    have hs : allEntries (b :: rest) = b ++ allEntries rest := by simp [allEntries]
    rw [hs] at hf ⊢
    have hb : Fresh acc b := ⟨fun e he => hf.1 e (by simp [he]), (List.pairwise_append.mp hf.2).1⟩
    simp only [List.map_cons, List.cons_append, reduceGo, mergeMsg_book n acc b hb]
    rw [addAll_append, ih (j + 1) (addAll acc b) msgs tail (fresh_after acc b _ hf)]
    congr 1
    simp; omega

theorem getE_of_mem (l : List (Val × Val)) (d : Val × Val) (hk : isKey d.1 = true) (hl : d ∈ l) : (getE l d.1).isSome = true := by
  induction l with
  | nil => simp at hl
  | cons y ys ihl =>
    simp only [getE]
    by_cases hy : keyEq y.1 d.1 = true
    · simp [hy]
    · simp only [hy, Bool.false_eq_true, if_false]
      simp only [List.mem_cons] at hl
      rcases hl with rfl | hl
      · rw [keyEq_refl _ hk] at hy; simp at hy
      · exact ihl hl

/-- **C11_duplicate_names_both_books**: books `0 … j-1` have pairwise different keys and merge; book `j` repeats a
key of book `i` and no key of an earlier book: the run is rejected as a duplicate between exactly the books `i`
and `j` (importer order), whatever else the books hold and however many follow. -/
theorem C11_duplicate_names_both_books (n : Nat) (pre mid post : List (List (Val × Val))) (bi bj : List (Val × Val))
    (hkeys : ∀ b ∈ pre ++ bi :: mid ++ [bj], ∀ e ∈ b, isKey e.1 = true)
    (hfresh : Fresh [] (allEntries (pre ++ bi :: mid)))
    (hshare : ∃ e ∈ bj, ∃ d ∈ bi, keyEq d.1 e.1 = true)
    (hpre : ∀ b ∈ pre, ∀ e ∈ bj, getE b e.1 = none) :
    reduce ((pre ++ bi :: mid ++ bj :: post).map (bookMsg n)) = .dup pre.length (pre.length + 1 + mid.length) := by
  have hsplit : (pre ++ bi :: mid ++ bj :: post).map (bookMsg n) =
      (pre ++ bi :: mid).map (bookMsg n) ++ bookMsg n bj :: post.map (bookMsg n) := by
    simp [List.map_append]
  have hlen : (pre ++ bi :: mid).length = pre.length + 1 + mid.length := by simp; omega
  unfold reduce
  have hbm : bookMsg n ([] : List (Val × Val)) = [] := rfl
  rw [hsplit, ← hbm, reduceGo_front n (pre ++ bi :: mid) 0 [] _ _ hfresh]
  have hkj : ∀ e ∈ bj, isKey e.1 = true := fun e he => hkeys bj (by simp) e he
  have hkfront : ∀ e ∈ allEntries (pre ++ bi :: mid), isKey e.1 = true := by
    intro e he
    obtain ⟨b, hb, heb⟩ := List.mem_flatten.mp he
    refine hkeys b ?_ e heb
    simp only [List.mem_append, List.mem_cons] at hb ⊢
    rcases hb with hb | hb | hb
    · exact Or.inl (Or.inl hb)
    · exact Or.inl (Or.inr (Or.inl hb))
    · exact Or.inl (Or.inr (Or.inr hb))
  obtain ⟨e, he, d, hd, hde⟩ := hshare
  have hacc : (getE (addAll [] (allEntries (pre ++ bi :: mid))) e.1).isSome = true := by
    apply getE_addAll_isSome _ hkfront
    right
    refine ⟨d, ?_, hde⟩
    simp only [allEntries, List.mem_flatten]
    exact ⟨bi, by simp, hd⟩
  have hmerge : mergeMsg (bookMsg n (addAll [] (allEntries (pre ++ bi :: mid)))) (bookMsg n bj) = .error .dupKey := by
    have hbj : bj ≠ [] := by intro h; rw [h] at he; simp at he
    have hne : addAll [] (allEntries (pre ++ bi :: mid)) ≠ [] := by
      intro h; rw [h] at hacc; simp [getE] at hacc
    unfold bookMsg
    cases hb : bj with
    | nil => exact absurd hb hbj
    | cons x xs =>
      cases ha : addAll [] (allEntries (pre ++ bi :: mid)) with
      | nil => exact absurd ha hne
      | cons a as =>
        simp only [List.isEmpty_cons, Bool.false_eq_true, if_false, mergeMsg, getF, if_true]
        rw [mergeEntries_dup (x :: xs) (by rw [← hb]; exact hkj) (a :: as) ⟨e, by rw [← hb]; exact he, by rw [← ha]; exact hacc⟩]
  simp only [reduceGo, hmerge, Nat.zero_add]
  -- the earliest earlier book sharing a key with book j is book i
  have hfind : (List.range (pre ++ bi :: mid).length).find?
      (fun i' => sharesKey (((pre ++ bi :: mid).map (bookMsg n) ++ bookMsg n bj :: post.map (bookMsg n)).getD i' []) (bookMsg n bj)) = some pre.length := by
    rw [List.find?_eq_some_iff_append]
    refine ⟨?_, List.range pre.length, (List.range' (pre.length + 1) mid.length), ?_, ?_⟩
    · have hget : ((pre ++ bi :: mid).map (bookMsg n) ++ bookMsg n bj :: post.map (bookMsg n)).getD pre.length [] = bookMsg n bi := by
        simp [List.getD_eq_getElem?_getD, List.getElem?_append_left, List.getElem?_append_right]
      rw [hget, sharesKey_book]
      simp only [List.any_eq_true]
      refine ⟨e, he, ?_⟩
      have hkd : isKey d.1 = true := hkeys bi (by simp) d hd
      have := keyEq_eq _ _ hde
      rw [← this]
      exact getE_of_mem bi d hkd hd
    · rw [hlen, List.range_eq_range', List.range_eq_range']
      have h1 : pre.length + 1 + mid.length = pre.length + (1 + mid.length) := by omega
      rw [h1, ← List.range'_append_1 (s := 0) (m := pre.length) (n := 1 + mid.length)]
      have h2 : 1 + mid.length = mid.length + 1 := by omega
      rw [h2, List.range'_succ]
      simp
    · intro i' hi'
      have hlt : i' < pre.length := by simpa using hi'
      have hget : ((pre ++ bi :: mid).map (bookMsg n) ++ bookMsg n bj :: post.map (bookMsg n)).getD i' [] = bookMsg n pre[i'] := by
        simp [List.getD_eq_getElem?_getD, List.getElem?_append_left, hlt]
      rw [hget, sharesKey_book, Bool.not_eq_true', List.any_eq_false]
      intro x hx
      rw [hpre pre[i'] (List.getElem_mem hlt) x hx]
      simp
  rw [hlen] at hfind ⊢
  rw [hfind]

end TableauVerif.Props.C11Union

namespace TableauVerif.Props.C11Union
open TableauVerif TableauVerif.Val TableauVerif.Model.Sheets
-- concrete readings (tests, labelled as tests): three books, key 1 in the first and the third
example : (match reduce ([[(Val.int 1, Val.int 10)], [(Val.int 2, Val.int 20)], [(Val.int 1, Val.int 30)]].map (bookMsg 1)) with
    | .dup 0 2 => true | _ => false) = true := by decide
example : (match reduce ([[(Val.int 1, Val.int 10)], [(Val.int 2, Val.int 20)]].map (bookMsg 1)) with
    | .ok [(1, .map [(.int 1, .int 10), (.int 2, .int 20)])] => true | _ => false) = true := by decide
end TableauVerif.Props.C11Union
