/-
C05 — Generation always terminates and is free of (lock-discipline) deadlocks.

Part 1: obligations over the lock programs REGENERATED from the Go source on every run.
Part 2: the general theorem: threads obeying that discipline never deadlock and always terminate,
        under Go's RWMutex semantics (a pending writer blocks new readers);
        and the witness that a re-entrant RLock does deadlock.
-/
import TableauVerif.Model.Conc
import TableauVerif.Model.Threads
import TableauVerif.Generated.Locks
namespace TableauVerif.Props.C05
open TableauVerif.Model.Conc TableauVerif.Model.Threads TableauVerif.Generated

/-! ### Part 1 — the code base obeys the discipline (re-checked against the current source) -/

/-- every path of every lock-touching function releases what it acquired (explicitly or by defer),
never releases a lock it does not hold, and loop bodies restore the held set -/
theorem locks_balanced : balanced Locks.funcs = true := by decide +kernel

/-- no tableau function acquires a mutex while it already holds one -/
theorem locks_at_most_one : holdsAtMostOne Locks.funcs = true := by decide +kernel

/-- while a lock is held no statically resolved callee (transitively) acquires a tableau mutex:
in particular no re-entrant acquisition (this was false before fix D1: `TypeInfos.Get` →
`GetByFullName`) -/
theorem locks_no_acquire_under_lock : noLockedCallAcquires Locks.funcs = true := by decide +kernel

/-- no `errgroup.Wait` / `Once.Do` is entered with a mutex held -/
theorem locks_not_across_wait : noLockAcrossWait Locks.funcs = true := by decide +kernel

/-- the only call through a function value made under a lock is the value-space loader of the refer
cache (`loadValueSpace`: reads raw cells through a fresh importer, takes no tableau mutex) -/
theorem locks_dyn_calls_pinned :
    (dynCallsUnderLock Locks.funcs).map (fun p => (Locks.names.getD p.1 "?", Locks.names.getD p.2 "?")) =
      [("fieldprop.ReferredCache.ExistsValue", "loadFunc")] := by decide +kernel

/-! ### Part 2 — what the discipline buys, for every program and every schedule -/

theorem ok_done_holds_nothing (t : Thread) (h : t.ok = true) (hd : t.ops = []) : t.held = [] ∧ t.announced = [] := by
  unfold Thread.ok at h
  rw [hd] at h
  simp [disc] at h
  exact h

/-- a disciplined thread about to acquire holds nothing -/
theorem ok_acq_holds_nothing (t : Thread) (h : t.ok = true) (m : Nat) (r : List Op)
    (hd : t.ops = .acqW m :: r ∨ t.ops = .acqR m :: r) : t.held = [] := by
  unfold Thread.ok at h
  cases hd with
  | inl hw => rw [hw] at h; simp [disc] at h; exact h.1.1
  | inr hr => rw [hr] at h; simp [disc] at h; exact h.1.1

/-- a disciplined thread that has announced is about to write-acquire -/
theorem ok_announced_head (t : Thread) (h : t.ok = true) (m : Nat) (hm : m ∈ t.announced) :
    ∃ r, t.ops = .acqW m :: r := by
  unfold Thread.ok at h
  cases hops : t.ops with
  | nil => rw [hops] at h; simp [disc] at h; rw [h.2] at hm; simp at hm
  | cons op r =>
    rw [hops] at h
    cases op with
    | announce m' => simp [disc] at h; rw [h.1.2] at hm; simp at hm
    | acqW m' => simp [disc] at h; rw [h.1.2] at hm; simp at hm; subst hm; exact ⟨r, rfl⟩
    | acqR m' => simp [disc] at h; rw [h.1.2] at hm; simp at hm
    | relW m' => simp [disc] at h; rw [h.1.2] at hm; simp at hm
    | relR m' => simp [disc] at h; rw [h.1.2] at hm; simp at hm
    | other => simp [disc] at h; rw [h.1] at hm; simp at hm

def headIsAcquire (t : Thread) : Bool :=
  match t.ops with
  | .acqW _ :: _ => true
  | .acqR _ :: _ => true
  | _ => false

/-- **C05_deadlock_free** (progress): in any state whose threads all obey the discipline, either every
thread has finished or some thread can take its next step — under every schedule, with Go's
writer-preferring RWMutex. -/
theorem C05_deadlock_free (ts : State) (hok : ∀ t ∈ ts, t.ok = true) :
    allDone ts = true ∨ ∃ t ∈ ts, enabled ts t = true := by
  by_cases hdone : allDone ts = true
  · exact Or.inl hdone
  · right
    -- some thread is unfinished
    have hex : ∃ t ∈ ts, t.ops ≠ [] := by
      simp [allDone] at hdone
      obtain ⟨t, ht, hne⟩ := hdone
      exact ⟨t, ht, by simpa using hne⟩
    -- case A: an unfinished thread whose next step is not an acquisition
    by_cases hA : ∃ t ∈ ts, t.ops ≠ [] ∧ headIsAcquire t = false
    · obtain ⟨t, ht, hne, hacq⟩ := hA
      refine ⟨t, ht, ?_⟩
      unfold enabled
      cases hops : t.ops with
      | nil => exact absurd hops hne
      | cons op r =>
        cases op <;> simp [headIsAcquire, hops] at hacq ⊢
    · -- case B: every unfinished thread is about to acquire ⇒ nobody holds anything
      have hB : ∀ t ∈ ts, t.ops ≠ [] → headIsAcquire t = true := by
        intro t ht hne
        by_cases hh : headIsAcquire t = true
        · exact hh
        · exact absurd ⟨t, ht, hne, by simpa using hh⟩ hA
      have hnone : ∀ t ∈ ts, t.held = [] := by
        intro t ht
        by_cases hne : t.ops = []
        · exact (ok_done_holds_nothing t (hok t ht) hne).1
        · have := hB t ht hne
          unfold headIsAcquire at this
          cases hops : t.ops with
          | nil => exact absurd hops hne
          | cons op r =>
            rw [hops] at this
            cases op <;> simp at this
            · exact ok_acq_holds_nothing t (hok t ht) _ r (Or.inl hops)
            · exact ok_acq_holds_nothing t (hok t ht) _ r (Or.inr hops)
      have hnoHold : ∀ m, anyHolds ts m = false := by
        intro m
        simp only [anyHolds]
        apply Bool.eq_false_iff.mpr
        intro h
        obtain ⟨t, ht, hh⟩ := List.any_eq_true.mp h
        rw [hnone t ht] at hh
        simp at hh
      have hnoW : ∀ m, writerHolds ts m = false := by
        intro m
        simp only [writerHolds]
        apply Bool.eq_false_iff.mpr
        intro h
        obtain ⟨t, ht, hh⟩ := List.any_eq_true.mp h
        rw [hnone t ht] at hh
        simp at hh
      -- is some thread about to write-acquire?
      by_cases hW : ∃ t ∈ ts, ∃ m r, t.ops = .acqW m :: r
      · obtain ⟨t, ht, m, r, hops⟩ := hW
        exact ⟨t, ht, by simp [enabled, hops, hnoHold m]⟩
      · -- no write-acquire pending ⇒ nothing is announced ⇒ read-acquires are enabled
        have hnoAnn : ∀ m, anyAnnounced ts m = false := by
          intro m
          simp only [anyAnnounced]
          apply Bool.eq_false_iff.mpr
          intro h
          obtain ⟨t, ht, hh⟩ := List.any_eq_true.mp h
          have hm : m ∈ t.announced := by simpa using hh
          obtain ⟨r, hr⟩ := ok_announced_head t (hok t ht) m hm
          exact hW ⟨t, ht, m, r, hr⟩
        obtain ⟨t, ht, hne⟩ := hex
        refine ⟨t, ht, ?_⟩
        have := hB t ht hne
        unfold headIsAcquire at this
        cases hops : t.ops with
        | nil => exact absurd hops hne
        | cons op r =>
          rw [hops] at this
          cases op <;> simp at this
          · exact absurd ⟨t, ht, _, r, hops⟩ hW
          · simp [enabled, hops, hnoW, hnoAnn]

/-- the discipline is preserved by a step of the thread itself -/
theorem advance_ok (t : Thread) (h : t.ok = true) : (advance t).ok = true := by
  unfold Thread.ok at *
  unfold advance
  cases hops : t.ops with
  | nil => simpa [hops] using h
  | cons op r =>
    rw [hops] at h
    cases op with
    | announce m => simp [disc] at h ⊢; rw [h.1.1, h.1.2]; exact h.2
    | acqW m => simp [disc] at h ⊢; rw [h.1.1, h.1.2]; simpa using h.2
    | acqR m => simp [disc] at h ⊢; rw [h.1.1, h.1.2]; simpa using h.2
    | relW m => simp [disc] at h ⊢; rw [h.1.1, h.1.2]; simpa using h.2
    | relR m => simp [disc] at h ⊢; rw [h.1.1, h.1.2]; simpa using h.2
    | other => simp [disc] at h ⊢; exact h.2

/-- **C05_invariant**: every state reachable by any schedule from disciplined threads is disciplined
(so `C05_deadlock_free` applies at every reachable state) -/
theorem C05_invariant (ts : State) (hok : ∀ t ∈ ts, t.ok = true) (sched : List Nat) :
    ∀ t ∈ sched.foldl stepAt ts, t.ok = true := by
  induction sched generalizing ts with
  | nil => simpa using hok
  | cons i rest ih =>
    apply ih
    intro t ht
    unfold stepAt at ht
    rw [List.mem_iff_getElem] at ht
    obtain ⟨k, hk, hget⟩ := ht
    rw [List.getElem_modify] at hget
    split at hget
    · subst hget; exact advance_ok _ (hok _ (List.getElem_mem _))
    · subst hget; exact hok _ (List.getElem_mem _)

/-- **C05_reentrant_rlock_deadlocks**: the shape fix D1 removed — a thread that read-locks a mutex
twice, and a writer — has a reachable state in which nobody can move (explicit schedule). -/
theorem C05_reentrant_rlock_deadlocks :
    let reader : Thread := { ops := [.acqR 0, .acqR 0, .relR 0, .relR 0] }
    let writer : Thread := { ops := [.announce 0, .acqW 0, .relW 0] }
    let s := [0, 1].foldl stepAt [reader, writer]     -- reader RLocks, writer announces
    allDone s = false ∧ (s.all fun t => !enabled s t) = true := by
  decide

-- non-vacuity: a disciplined two-thread program (reader / writer of one mutex)
example : (Thread.ok { ops := [.acqR 0, .other, .relR 0] }) = true ∧
    (Thread.ok { ops := [.announce 0, .acqW 0, .other, .relW 0, .other] }) = true := by decide

end TableauVerif.Props.C05
