/-
C06 — JSON, text and binary outputs are equivalent and load back unchanged.

tableau's own transformation on the text path is the white-space squeeze of prototext output.
Theorem: it never alters a string literal (whatever blanks, U+3000, quotes or escapes it contains),
and after a literal the scanner is outside quotes again — so the squeezed text has the same token
sequence as prototext's output. (The codecs themselves — protojson, prototext, wire — are trusted
libraries exercised by the stream `e2e.C06.formats`.)
-/
import TableauVerif.Model.TextFmt
namespace TableauVerif.Props.C06
open TableauVerif TableauVerif.Model.TextFmt

/-- inside a literal: the body and the closing quote are copied verbatim -/
theorem sqGo_in_literal (q : Nat) (hq : q ≠ 0) (hqb : q ≠ bs) (body rest : Str) :
    ∀ esc pend, closedBody q body esc = true →
      sqGo (body ++ q :: rest) q esc pend true = body ++ q :: sqGo rest 0 false pend true := by
  induction body with
  | nil =>
    intro esc pend h
    simp [closedBody] at h
    subst h
    have hq' : (q != 0) = true := by simpa using hq
    have hqb' : (q == bs) = false := by simpa using hqb
    simp [sqGo, hq', hqb']
  | cons r body ih =>
    intro esc pend h
    have hq' : (q != 0) = true := by simpa using hq
    simp only [List.cons_append, sqGo, hq', if_true]
    unfold closedBody at h
    by_cases he : esc = true
    · subst he
      simp only [if_true] at h ⊢
      rw [ih false pend h]
    · have he' : esc = false := by simpa using he
      subst he'
      simp only [Bool.false_eq_true, if_false] at h ⊢
      by_cases hb : (r == bs) = true
      · simp only [hb, if_true] at h ⊢
        rw [ih true pend h]
      · simp only [hb, Bool.false_eq_true, if_false] at h ⊢
        by_cases hrq : (r == q) = true
        · simp [hrq] at h
        · simp only [hrq, Bool.false_eq_true, if_false] at h ⊢
          rw [ih false pend h]

/-- **C06_squeeze_keeps_literals**: a double-quoted string literal met outside quotes is emitted
verbatim — opening quote, body, closing quote — preceded by at most one separating blank, and the
scanner continues outside quotes. Blank runs, U+3000, quotes of the other kind and escapes inside the
value are untouched (before fix D12 `strings.Fields` rewrote them). -/
theorem C06_squeeze_keeps_literals (body rest : Str) (pend ne : Bool) (h : closedBody dq body false = true) :
    sqGo (dq :: body ++ dq :: rest) 0 false pend ne =
      (if pend && ne then [32] else []) ++ dq :: body ++ dq :: sqGo rest 0 false false true := by
  have hsp : Model.Literal.isSpace dq = false := by decide
  have hq : (dq == dq || dq == sq) = true := by decide
  have h0 : ((0 : Nat) != 0) = false := by decide
  show sqGo (dq :: (body ++ dq :: rest)) 0 false pend ne = _
  rw [sqGo]
  simp only [h0, Bool.false_eq_true, if_false, hsp, hq, if_true]
  rw [sqGo_in_literal dq (by decide) (by decide) body rest false false h]
  simp

/-- white space outside literals: a run collapses to one blank (or nothing at the very start) -/
theorem C06_squeeze_blank_run (ws rest : Str) (pend ne : Bool) (h : ∀ c ∈ ws, Model.Literal.isSpace c = true) :
    sqGo (ws ++ rest) 0 false pend ne = sqGo rest 0 false (pend || !ws.isEmpty) ne := by
  induction ws generalizing pend with
  | nil => simp
  | cons c cs ih =>
    have hc := h c (by simp)
    simp only [List.cons_append, sqGo, bne_self_eq_false, Bool.false_eq_true, if_false, hc, if_true]
    rw [ih true (fun x hx => h x (by simp [hx]))]
    simp

-- tests (labelled as tests): the values that used to be corrupted
example : squeeze (Str.ofString "name:  \"a  b\"   key: \"x　y\"\n") = Str.ofString "name: \"a  b\" key: \"x　y\"" := by decide
example : closedBody dq (Str.ofString "a \\\" b \\\\") false = true := by decide

end TableauVerif.Props.C06
