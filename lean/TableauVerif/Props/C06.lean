/-
C06 — JSON, text and binary outputs are equivalent and load back unchanged.

tableau's own transformation on the text path is the white-space squeeze of prototext output.
Theorem: it never alters a string literal (whatever blanks, U+3000, quotes or escapes it contains),
and after a literal the scanner is outside quotes again — so the squeezed text has the same token
sequence as prototext's output. (The codecs themselves — protojson, prototext, wire — are trusted
libraries exercised by the stream `e2e.C06.formats`.)
-/
import TableauVerif.Model.TextFmt
namespace TableauVerif.Props.C06
open TableauVerif TableauVerif.Model.TextFmt

/-- inside a literal: the body and the closing quote are copied verbatim -/
theorem sqGo_in_literal (q : Nat) (hq : q ≠ 0) (hqb : q ≠ bs) (body rest : Str) :
    ∀ esc pend, closedBody q body esc = true →
      sqGo (body ++ q :: rest) q esc pend true = body ++ q :: sqGo rest 0 false pend true := by
  induction body with
  | nil =>
    intro esc pend h
    simp [closedBody] at h
    subst h
    have hq' : (q != 0) = true := by simpa using hq
    have hqb' : (q == bs) = false := by simpa using hqb
    simp [sqGo, hq', hqb']
  | cons r body ih =>
    intro esc pend h
    have hq' : (q != 0) = true := by simpa using hq
    simp only [List.cons_append, sqGo, hq', if_true]
    unfold closedBody at h
    by_cases he : esc = true
    · subst he
      simp only [if_true] at h ⊢
      rw [ih false pend h]
    · have he' : esc = false := by simpa using he
      subst he'
      simp only [Bool.false_eq_true, if_false] at h ⊢
      by_cases hb : (r == bs) = true
      · simp only [hb, if_true] at h ⊢
        rw [ih true pend h]
      · simp only [hb, Bool.false_eq_true, if_false] at h ⊢
        by_cases hrq : (r == q) = true
        · simp [hrq] at h
        · simp only [hrq, Bool.false_eq_true, if_false] at h ⊢
          rw [ih false pend h]

/-- **C06_squeeze_keeps_literals**: a double-quoted string literal met outside quotes is emitted
verbatim — opening quote, body, closing quote — preceded by at most one separating blank, and the
scanner continues outside quotes. Blank runs, U+3000, quotes of the other kind and escapes inside the
value are untouched (before fix D12 `strings.Fields` rewrote them). -/
theorem C06_squeeze_keeps_literals (body rest : Str) (pend ne : Bool) (h : closedBody dq body false = true) :
    sqGo (dq :: body ++ dq :: rest) 0 false pend ne =
      (if pend && ne then [32] else []) ++ dq :: body ++ dq :: sqGo rest 0 false false true := by
  have hsp : Model.Literal.isSpace dq = false := by decide
  have hq : (dq == dq || dq == sq) = true := by decide
  have h0 : ((0 : Nat) != 0) = false := by decide
  show sqGo (dq :: (body ++ dq :: rest)) 0 false pend ne = _
  rw [sqGo]
  simp only [h0, Bool.false_eq_true, if_false, hsp, hq, if_true]
  rw [sqGo_in_literal dq (by decide) (by decide) body rest false false h]
  simp

/-- white space outside literals: a run collapses to one blank (or nothing at the very start) -/
theorem C06_squeeze_blank_run (ws rest : Str) (pend ne : Bool) (h : ∀ c ∈ ws, Model.Literal.isSpace c = true) :
    sqGo (ws ++ rest) 0 false pend ne = sqGo rest 0 false (pend || !ws.isEmpty) ne := by
  induction ws generalizing pend with
  | nil => simp
  | cons c cs ih =>
    have hc := h c (by simp)
    simp only [List.cons_append, sqGo, bne_self_eq_false, Bool.false_eq_true, if_false, hc, if_true]
    rw [ih true (fun x hx => h x (by simp [hx]))]
    simp

/-! ### the whole text: only white space outside literals can change -/

/-- the text without the white space that stands outside string literals (same scanner states as `sqGo`) -/
def stripGo : Str → Nat → Bool → Str
  | [], _, _ => []
  | r :: rest, q, esc =>
    if q != 0 then
      r :: (if esc then stripGo rest q false
            else if r == bs then stripGo rest q true
            else if r == q then stripGo rest 0 false
            else stripGo rest q false)
    else if Model.Literal.isSpace r then stripGo rest 0 false
    else r :: stripGo rest (if r == dq || r == sq then r else 0) false

theorem stripGo_squeeze (s : Str) : ∀ (q : Nat) (esc pend ne : Bool), (q = 0 → esc = false) →
    stripGo (sqGo s q esc pend ne) q esc = stripGo s q esc := by
  induction s with
  | nil => intro q esc pend ne _; simp [sqGo]
  | cons r rest ih =>
    intro q esc pend ne hq0
    by_cases hq : q = 0
    · subst hq
      have he := hq0 rfl
      subst he
      by_cases hsp : Model.Literal.isSpace r = true
      · simp only [sqGo, stripGo, bne_self_eq_false, Bool.false_eq_true, if_false, hsp, if_true]
        exact ih 0 false true ne (fun _ => rfl)
      · have hsp' : Model.Literal.isSpace r = false := by simpa using hsp
        have h32 : Model.Literal.isSpace 32 = true := by decide
        have hnext := ih (if r == dq || r == sq then r else 0) false false true (fun _ => rfl)
        simp only [sqGo, bne_self_eq_false, Bool.false_eq_true, if_false, hsp']
        by_cases hp : (pend && ne) = true
        · simp only [hp, if_true, List.cons_append, List.nil_append, stripGo, bne_self_eq_false, Bool.false_eq_true,
            if_false, h32, hsp']
          rw [hnext]
        · have hp' : (pend && ne) = false := by simpa using hp
          simp only [hp', Bool.false_eq_true, if_false, List.nil_append, stripGo, bne_self_eq_false, hsp']
          rw [hnext]
    · have hq' : (q != 0) = true := by simpa using hq
      simp only [sqGo, stripGo, hq', if_true]
      congr 1
      by_cases he : esc = true
      · subst he
        simp only [if_true]
        exact ih q false pend true (fun h => absurd h hq)
      · have he' : esc = false := by simpa using he
        subst he'
        simp only [Bool.false_eq_true, if_false]
        by_cases hb : (r == bs) = true
        · simp only [hb, if_true]
          exact ih q true pend true (fun h => absurd h hq)
        · simp only [hb, Bool.false_eq_true, if_false]
          by_cases hrq : (r == q) = true
          · simp only [hrq, if_true]
            exact ih 0 false pend true (fun _ => rfl)
          · simp only [hrq, Bool.false_eq_true, if_false]
            exact ih q false pend true (fun h => absurd h hq)

/-- **C06_squeeze_changes_blanks_only**: for every text, squeezing changes nothing but white space that stands
outside string literals: with that white space removed, the squeezed text and the original are the same rune
sequence — every token and every literal body, however it is escaped, survives in order. -/
theorem C06_squeeze_changes_blanks_only (s : Str) : stripGo (squeeze s) 0 false = stripGo s 0 false :=
  stripGo_squeeze s 0 false false false (fun _ => rfl)

-- tests (labelled as tests): the values that used to be corrupted
example : squeeze (Str.ofString "name:  \"a  b\"   key: \"x　y\"\n") = Str.ofString "name: \"a  b\" key: \"x　y\"" := by decide
example : closedBody dq (Str.ofString "a \\\" b \\\\") false = true := by decide

end TableauVerif.Props.C06
