/-
C06 / C20 — a datetime cell is only ever stored as an instant that a Timestamp can hold (0001-01-01T00:00:00Z …
9999-12-31T23:59:59Z): whatever the location and the text, an accepted cell lies in that range — so every accepted
message can be written in all three formats (proto3 JSON cannot express a Timestamp outside it). On the model of
`parseTimeWithLocation` + `CheckValid` (`Model.Time.parseTimestamp`, tied by `corr.xproto.parseTime`; the three-files-or-none
consequence is exercised by `e2e.C06.boundary`).
-/
import TableauVerif.Model.Time
namespace TableauVerif.Props.C06Range
open TableauVerif TableauVerif.Model.Time

theorem finish_in_range (z : Zone) (w : Wall) (t : Int) (h : finish z w = .ok t) : minTs ≤ t ∧ t ≤ maxTs := by
  unfold finish at h
  split at h
  · cases h
  · simp only [] at h
    split at h
    · cases h
    · rename_i hr
      injection h with h
      subst h
      simp only [Bool.or_eq_true, decide_eq_true_eq, not_or, Int.not_lt] at hr
      exact ⟨hr.1, hr.2⟩

/-- **C06_accepted_timestamp_in_range** -/
theorem C06_accepted_timestamp_in_range (z : Zone) (raw : Str) (t : Int) (h : parseTimestamp z raw = .ok t) :
    minTs ≤ t ∧ t ≤ maxTs := by
  unfold parseTimestamp at h
  simp only [] at h
  split at h
  · split at h
    · cases h
    · split at h
      · cases h
      · split at h
        · exact finish_in_range _ _ _ h
        · split at h <;> cases h
  · split at h
    · cases h
    · split at h
      · exact finish_in_range _ _ _ h
      · cases h

-- test (labelled as a test): the last second of year 9999 west of UTC is outside, in UTC inside
example : parseTimestamp [(0, -18000)] (Str.ofString "9999-12-31 23:59:59") = .err ∧
    parseTimestamp [(0, 0)] (Str.ofString "9999-12-31 23:59:59") = .ok maxTs ∧
    parseTimestamp [(0, 28800)] (Str.ofString "0001-01-01 00:00:00") = .err := by decide

end TableauVerif.Props.C06Range
