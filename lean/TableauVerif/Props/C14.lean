/-
C14 — Header and separator options resolve field > sheet > book > global > default.
Property theorems only.
-/
import TableauVerif.Model.Options
import TableauVerif.Spec.C14
namespace TableauVerif.Props.C14
open TableauVerif.Model.Options TableauVerif.Spec.C14

theorem pickInt_spec (s b : Int) (g : Option Int) (d : Int) :
    pickInt s b g d = firstNonZero ([s, b] ++ g.toList) d := by
  unfold pickInt
  cases g with
  | none => by_cases hs : s = 0 <;> by_cases hb : b = 0 <;> simp [firstNonZero, hs, hb]
  | some gv =>
    by_cases hs : s = 0 <;> by_cases hb : b = 0 <;> by_cases hg : gv = 0 <;>
      simp [firstNonZero, hs, hb, hg]

theorem pickStr_spec (s b : String) (g : Option String) (d : String) :
    pickStr s b g d = firstNonEmpty ([s, b] ++ g.toList) d := by
  unfold pickStr
  cases g with
  | none => by_cases hs : s = "" <;> by_cases hb : b = "" <;> simp [firstNonEmpty, hs, hb]
  | some gv =>
    by_cases hs : s = "" <;> by_cases hb : b = "" <;> by_cases hg : gv = "" <;>
      simp [firstNonEmpty, hs, hb, hg]

/-- **C14_resolve**: for every presence pattern and all values at once, the three-level resolver
returns the most specific non-empty setting, else the default. -/
theorem C14_resolve (s b : Level) (g : Option Level) : mergeHeader s b g = resolved s b g := by
  unfold mergeHeader resolved lv
  simp only [pickInt_spec, pickStr_spec]
  cases g <;> rfl

/-- **C14_sep_field**: the separator confgen splits a field with is
field prop > sheet > book > "," -/
theorem C14_sep_field (f s b : String) : fieldSep f s b = firstNonEmpty [f, s, b] "," := by
  unfold fieldSep getSep
  by_cases hf : f = "" <;> by_cases hs : s = "" <;> by_cases hb : b = "" <;>
    simp [firstNonEmpty, hf, hs, hb, defaultSep]

theorem C14_subsep_field (f s b : String) : fieldSubsep f s b = firstNonEmpty [f, s, b] ":" := by
  unfold fieldSubsep getSubsep
  by_cases hf : f = "" <;> by_cases hs : s = "" <;> by_cases hb : b = "" <;>
    simp [firstNonEmpty, hf, hs, hb, defaultSubsep]

/-- The oracle accepts exactly the model's output (so the oracle judges the implementation's
observation by the same yardstick the theorem uses). -/
theorem C14_oracle_sound (s b : Level) (g : Option Level) : holdsMerge s b g (mergeHeader s b g) = true := by
  simp [holdsMerge, C14_resolve]

theorem pickInt_rec (s gv d : Int) :
    pickInt s (if gv == 0 then d else gv) none d = pickInt s 0 (some gv) d := by
  unfold pickInt
  by_cases hs : s = 0 <;> by_cases hg : gv = 0 <;> by_cases hd : d = 0 <;> simp [hs, hg, hd]

theorem pickInt_rec0 (s gv : Int) : pickInt s gv none 0 = pickInt s 0 (some gv) 0 := by
  unfold pickInt
  by_cases hs : s = 0 <;> by_cases hg : gv = 0 <;> simp [hs, hg]

theorem pickStr_rec (s gv d : String) :
    pickStr s (if gv == "" then d else gv) none d = pickStr s "" (some gv) d := by
  unfold pickStr
  by_cases hs : s = "" <;> by_cases hg : gv = "" <;> by_cases hd : d = "" <;> simp [hs, hg, hd]

/-- **C14_recorded_agree_partial**: what confgen resolves from the recorded options equals what
protogen used — proved when the metasheet has **no book-level (`#`) header settings**.
The full statement (for every `bookMeta`) is `C14_recorded_agree_full`; whether it holds depends
on how the `#` row is recorded (finding D11). -/
theorem C14_recorded_agree_partial (sheetMeta : Level) (g : Option Level) :
    confgenView (recordSheet sheetMeta) (recordBook g) = protogenView sheetMeta none g := by
  unfold confgenView protogenView recordSheet recordBook mergeHeader
  cases g with
  | none => rfl
  | some gv =>
    simp only [Option.getD, Option.map, pickInt_rec, pickInt_rec0, pickStr_rec]

/-- the full statement of "protogen and confgen resolve identically" -/
def C14_recorded_agree_full : Prop :=
  ∀ (sheetMeta : Level) (bookMeta g : Option Level),
    confgenView (recordSheet sheetMeta) (recordBook g) = protogenView sheetMeta bookMeta g

/-- **C14_recorded_agree_witness**: the full statement is false of the model as the code stands
(book-level `#` row with `Namerow = 2`): protogen reads row 2, confgen reads row 1. -/
theorem C14_recorded_agree_witness : ¬ C14_recorded_agree_full := by
  intro h
  have := h {} (some { namerow := 2 }) none
  exact absurd this (by decide)

-- non-vacuity: a non-trivial instance of the partial theorem's two sides
example : (protogenView { namerow := 5, sep := ";" } none (some { typerow := 7, nameline := 2 })).typeRow = 7 := by decide

end TableauVerif.Props.C14
