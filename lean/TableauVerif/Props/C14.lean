/-
C14 — Header and separator options resolve field > sheet > book > global > default.
Property theorems only.
-/
import TableauVerif.Model.Options
import TableauVerif.Spec.C14
namespace TableauVerif.Props.C14
open TableauVerif.Model.Options TableauVerif.Spec.C14

theorem pickInt_spec (s b : Int) (g : Option Int) (d : Int) :
    pickInt s b g d = firstNonZero ([s, b] ++ g.toList) d := by
  unfold pickInt
  cases g with
  | none => by_cases hs : s = 0 <;> by_cases hb : b = 0 <;> simp [firstNonZero, hs, hb]
  | some gv =>
    by_cases hs : s = 0 <;> by_cases hb : b = 0 <;> by_cases hg : gv = 0 <;>
      simp [firstNonZero, hs, hb, hg]

theorem pickStr_spec (s b : String) (g : Option String) (d : String) :
    pickStr s b g d = firstNonEmpty ([s, b] ++ g.toList) d := by
  unfold pickStr
  cases g with
  | none => by_cases hs : s = "" <;> by_cases hb : b = "" <;> simp [firstNonEmpty, hs, hb]
  | some gv =>
    by_cases hs : s = "" <;> by_cases hb : b = "" <;> by_cases hg : gv = "" <;>
      simp [firstNonEmpty, hs, hb, hg]

/-- **C14_resolve**: for every presence pattern and all values at once, the three-level resolver
returns the most specific non-empty setting, else the default. -/
theorem C14_resolve (s b : Level) (g : Option Level) : mergeHeader s b g = resolved s b g := by
  unfold mergeHeader resolved lv
  simp only [pickInt_spec, pickStr_spec]
  cases g <;> rfl

/-- **C14_sep_field**: the separator confgen splits a field with is
field prop > sheet > book > "," -/
theorem C14_sep_field (f s b : String) : fieldSep f s b = firstNonEmpty [f, s, b] "," := by
  unfold fieldSep getSep
  by_cases hf : f = "" <;> by_cases hs : s = "" <;> by_cases hb : b = "" <;>
    simp [firstNonEmpty, hf, hs, hb, defaultSep]

theorem C14_subsep_field (f s b : String) : fieldSubsep f s b = firstNonEmpty [f, s, b] ":" := by
  unfold fieldSubsep getSubsep
  by_cases hf : f = "" <;> by_cases hs : s = "" <;> by_cases hb : b = "" <;>
    simp [firstNonEmpty, hf, hs, hb, defaultSubsep]

/-- The oracle accepts exactly the model's output (so the oracle judges the implementation's
observation by the same yardstick the theorem uses). -/
theorem C14_oracle_sound (s b : Level) (g : Option Level) : holdsMerge s b g (mergeHeader s b g) = true := by
  simp [holdsMerge, C14_resolve]

theorem pickInt_rec (s b gv d : Int) :
    pickInt s (if b != 0 then b else if gv == 0 then d else gv) none d = pickInt s b (some gv) d := by
  unfold pickInt
  by_cases hs : s = 0 <;> by_cases hb : b = 0 <;> by_cases hg : gv = 0 <;> by_cases hd : d = 0 <;>
    simp [hs, hb, hg, hd]

theorem pickInt_rec_none (s b d : Int) :
    pickInt s (if b != 0 then b else d) none d = pickInt s b none d := by
  unfold pickInt
  by_cases hs : s = 0 <;> by_cases hb : b = 0 <;> by_cases hd : d = 0 <;> simp [hs, hb, hd]

theorem pickInt_rec0 (s b gv : Int) :
    pickInt s (if b != 0 then b else gv) none 0 = pickInt s b (some gv) 0 := by
  unfold pickInt
  by_cases hs : s = 0 <;> by_cases hb : b = 0 <;> by_cases hg : gv = 0 <;> simp [hs, hb, hg]

theorem pickStr_rec (s b gv d : String) :
    pickStr s (if b != "" then b else if gv == "" then d else gv) none d = pickStr s b (some gv) d := by
  unfold pickStr
  by_cases hs : s = "" <;> by_cases hb : b = "" <;> by_cases hg : gv = "" <;> by_cases hd : d = "" <;>
    simp [hs, hb, hg, hd]

theorem pickStr_rec_none (s b d : String) :
    pickStr s (if b != "" then b else d) none d = pickStr s b none d := by
  unfold pickStr
  by_cases hs : s = "" <;> by_cases hb : b = "" <;> by_cases hd : d = "" <;> simp [hs, hb, hd]

/-- **C14_recorded_agree**: what confgen resolves from the options protogen records equals what
protogen itself used to read the sheet — for every sheet row, every book-level (`#`) row (or none)
and every global header (or none). (Before fix D11 the `#` row was not recorded and this was false:
see `C14_recorded_agree_without_fix_witness`.) -/
theorem C14_recorded_agree (sheetMeta : Level) (bookMeta g : Option Level) :
    confgenView (recordSheet sheetMeta) (recordBook g bookMeta) = protogenView sheetMeta bookMeta g := by
  unfold confgenView protogenView recordSheet recordBook mergeBook recordGlobal mergeHeader
  cases g with
  | none =>
    cases bookMeta with
    | none => rfl
    | some b =>
      simp only [Option.getD, Option.map]
      have e1 := pickInt_rec_none sheetMeta.namerow b.namerow defaultNameRow
      have e2 := pickInt_rec_none sheetMeta.typerow b.typerow defaultTypeRow
      have e3 := pickInt_rec_none sheetMeta.noterow b.noterow defaultNoteRow
      have e4 := pickInt_rec_none sheetMeta.datarow b.datarow defaultDataRow
      have e5 := pickInt_rec_none sheetMeta.nameline b.nameline 0
      have e6 := pickInt_rec_none sheetMeta.typeline b.typeline 0
      have e7 := pickStr_rec_none sheetMeta.sep b.sep defaultSep
      have e8 := pickStr_rec_none sheetMeta.subsep b.subsep defaultSubsep
      simp_all
  | some gv =>
    cases bookMeta with
    | none =>
      simp only [Option.getD, Option.map]
      have e1 := pickInt_rec sheetMeta.namerow 0 gv.namerow defaultNameRow
      have e2 := pickInt_rec sheetMeta.typerow 0 gv.typerow defaultTypeRow
      have e3 := pickInt_rec sheetMeta.noterow 0 gv.noterow defaultNoteRow
      have e4 := pickInt_rec sheetMeta.datarow 0 gv.datarow defaultDataRow
      have e5 := pickInt_rec0 sheetMeta.nameline 0 gv.nameline
      have e6 := pickInt_rec0 sheetMeta.typeline 0 gv.typeline
      have e7 := pickStr_rec sheetMeta.sep "" gv.sep defaultSep
      have e8 := pickStr_rec sheetMeta.subsep "" gv.subsep defaultSubsep
      simp_all
    | some b =>
      simp only [Option.getD, Option.map]
      have e1 := pickInt_rec sheetMeta.namerow b.namerow gv.namerow defaultNameRow
      have e2 := pickInt_rec sheetMeta.typerow b.typerow gv.typerow defaultTypeRow
      have e3 := pickInt_rec sheetMeta.noterow b.noterow gv.noterow defaultNoteRow
      have e4 := pickInt_rec sheetMeta.datarow b.datarow gv.datarow defaultDataRow
      have e5 := pickInt_rec0 sheetMeta.nameline b.nameline gv.nameline
      have e6 := pickInt_rec0 sheetMeta.typeline b.typeline gv.typeline
      have e7 := pickStr_rec sheetMeta.sep b.sep gv.sep defaultSep
      have e8 := pickStr_rec sheetMeta.subsep b.subsep gv.subsep defaultSubsep
      simp_all

/-- composed with `C14_resolve`: confgen's view of the recorded options is the specified resolution -/
theorem C14_confgen_resolves (sheetMeta : Level) (bookMeta g : Option Level) :
    confgenView (recordSheet sheetMeta) (recordBook g bookMeta) = resolved sheetMeta (bookMeta.getD {}) g := by
  rw [C14_recorded_agree]
  exact C14_resolve _ _ _

/-- **C14_recorded_agree_without_fix_witness**: recording only the global header (the code before
fix D11) does not satisfy the statement: `#` row with `Namerow = 2`. -/
theorem C14_recorded_agree_without_fix_witness :
    ¬ ∀ (sheetMeta : Level) (bookMeta g : Option Level),
      confgenView (recordSheet sheetMeta) (recordGlobal g) = protogenView sheetMeta bookMeta g := by
  intro h
  have := h {} (some { namerow := 2 }) none
  exact absurd this (by decide)

-- non-vacuity: a non-trivial instance
example : (protogenView { namerow := 5, sep := ";" } (some { noterow := 9 }) (some { typerow := 7, nameline := 2 })) =
    { nameRow := 5, typeRow := 7, noteRow := 9, dataRow := 4, nameLine := 2, typeLine := 0, sep := ";", subsep := ":" } := by decide

end TableauVerif.Props.C14
