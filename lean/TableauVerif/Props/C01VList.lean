/-
C01 at sheet level, for the worksheet shape `[Row]` laid out vertically (a list of structs, one element per data
line) with scalar columns: any number of columns, any number of data lines.

Proved: each data line with at least one populated cell appends exactly one element — the message its cells state —
behind the elements already there (`vlist_row`), and the line loop of `Parse` over all data lines yields the single
list field holding one element per line, in sheet order (`C01_vertical_list_sheet_partial`): nothing lost, nothing
merged (equal lines stay two elements), nothing reordered.

(Partial: scalar columns only; keyed lists and nested aggregates are covered by the round-trip stream.)
-/
import TableauVerif.Props.C01Sheet
namespace TableauVerif.Props.C01VList
open TableauVerif TableauVerif.Val TableauVerif.Model.TableParser TableauVerif.Spec.C01
open TableauVerif.Model.Literal TableauVerif.Props.C01 TableauVerif.Props.C01Sheet

/-- the vertical list field `[Row]`: element message = the scalar columns `cols`; no key, no field property -/
def vlistField (num : Nat) (name : Str) (fields : List TField) (protoName : Str) : TField :=
  .mk num name [] .list .vertical false none none fields {} [] [] [] protoName

/-- a data line of the list: its scalar columns -/
structure LineSpec where
  cols : List Col

def LineSpec.elem (r : LineSpec) : Val := .msg (stated r.cols)

/-- ascending field numbers, canonical values, at least one populated cell -/
def LineSpec.WF (r : LineSpec) : Prop :=
  (r.cols.map (·.num)).Pairwise (· < ·) ∧
  (∀ col ∈ r.cols, ∀ v, col.val = some v → wfScalar col.kind v = true) ∧
  r.cols.any (·.val.isSome) = true

def Exposes (acc : RowAcc) (name : Str) (r : LineSpec) : Prop :=
  ∀ col ∈ r.cols, acc.dat (name ++ col.name) = some col.text

def SameColumns (schema : List (Nat × Str × SKind)) (r : LineSpec) : Prop :=
  r.cols.map (fun c => (c.num, c.name, c.kind)) = schema

theorem fields_of_schema (schema : List (Nat × Str × SKind)) (r : LineSpec) (h : SameColumns schema r) :
    r.cols.map Col.field = schema.map (fun s => flatField s.1 s.2.1 s.2.2) := by
  rw [← h, List.map_map]; rfl

/-- **vlist_row**: a data line with a populated cell appends exactly the element its cells state -/
theorem vlist_row (c : Ctx) (acc : RowAcc) (num : Nat) (name protoName : Str) (r : LineSpec) (m : Msg)
    (hwf : r.WF) (hdat : Exposes acc name r) :
    parseField c acc (vlistField num name (r.cols.map Col.field) protoName) m [] =
      .ok (setList m num (getList m num ++ [r.elem]), true) := by
  obtain ⟨hsorted, hvals, hany⟩ := hwf
  have hf := flat_scalars_prefixed c acc ([] ++ name) r.cols [] hsorted (by simp) (by simpa [Exposes] using hdat) hvals
  simp only [List.nil_append] at hf
  simp [vlistField, parseField, hf, hany, bind, Except.bind, pure, Except.pure, LineSpec.elem]

theorem getList_setList_nil (num : Nat) (l : List Val) : getList (setList [] num l) num = l := by
  cases l with
  | nil => simp [setList, getList, delF, getF]
  | cons e rest => simp [setList, getList, setF, getF]

theorem setList_single (num : Nat) (l l' : List Val) (h' : l' ≠ []) :
    setList (setList [] num l) num l' = setList [] num l' := by
  cases l' with
  | nil => exact absurd rfl h'
  | cons e' rest' =>
    cases l with
    | nil => simp [setList, delF, setF]
    | cons e rest => simp [setList, setF]

/-- a line that exposes a well-formed line spec (some cell populated) is not blank -/
theorem exposes_not_blank (row : Row) (name : Str) (r : LineSpec) (hwf : r.WF) (hexp : Exposes row.acc name r) :
    row.blank = false := by
  cases hb : row.blank with
  | false => rfl
  | true =>
    obtain ⟨_, hvals, hany⟩ := hwf
    obtain ⟨col, hcol, hs⟩ := List.any_eq_true.mp hany
    obtain ⟨v, hv⟩ := Option.isSome_iff_exists.mp hs
    have hw := hvals col hcol v hv
    have ht : col.text = [] := blank_dat row hb _ _ (hexp col hcol)
    simp only [Col.text, hv] at ht
    have h1 := C01_scalar_roundtrip col.kind v hw
    rw [ht, C01_blank_absent] at h1
    simp at h1

/-- **C01_vertical_list_sheet_partial**: a worksheet whose single top-level field is a vertical list of structs with
scalar columns, over data lines `i, i+1, …` that expose the well-formed lines `rs`: the line loop returns the message
with exactly that list field, holding the elements already there followed by one element per line, in line order.
Any number of lines, any number of columns; equal lines are two elements. -/
theorem C01_vertical_list_sheet_partial (c : Ctx) (num : Nat) (name protoName : Str)
    (schema : List (Nat × Str × SKind)) (cols : Cols) (first : Nat) (tr : Bool) :
    ∀ (rs : List LineSpec) (i : Nat) (es : List Val),
      (∀ r ∈ rs, r.WF ∧ SameColumns schema r) →
      (∀ j (hj : j < rs.length), Exposes (cols.row (i + j) (first + (i + j)) tr).acc name rs[j]) →
      parseLines c [vlistField num name (schema.map (fun s => flatField s.1 s.2.1 s.2.2)) protoName]
          cols first tr rs.length i (setList [] num es)
        = .ok (setList [] num (es ++ rs.map LineSpec.elem)) := by
  intro rs
  induction rs with
  | nil => intro i es _ _; simp [parseLines]
  | cons r rest ih =>
    intro i es hwf hexp
    have hr := hwf r (by simp)
    have hfields := fields_of_schema schema r hr.2
    have hexp0 : Exposes (cols.row i (first + i) tr).acc name r := by
      have := hexp 0 (by simp); simpa using this
    have hstep := vlist_row c (cols.row i (first + i) tr).acc num name protoName r (setList [] num es) hr.1 hexp0
    simp only [hfields, getList_setList_nil] at hstep
    have hnb := exposes_not_blank (cols.row i (first + i) tr) name r hr.1 hexp0
    simp only [List.length_cons, parseLines, hnb, Bool.false_eq_true, if_false, parseFields, hstep, bind, Except.bind, pure, Except.pure]
    rw [setList_single num es _ (by simp)]
    have := ih (i + 1) (es ++ [r.elem])
      (fun x hx => hwf x (by simp [hx]))
      (fun j hj => by
        have := hexp (j + 1) (by simp; omega)
        simpa [Nat.add_assoc, Nat.add_comm 1 j] using this)
    simpa [List.append_assoc] using this

/-- every line is in the result once per occurrence, at its place: element `es.length + j` is what line `j` states -/
theorem C01_every_line_in_order (es : List Val) (rs : List LineSpec) (j : Nat) (hj : j < rs.length) :
    (es ++ rs.map LineSpec.elem)[es.length + j]? = some (rs[j]).elem ∧
    (es ++ rs.map LineSpec.elem).length = es.length + rs.length := by
  constructor
  · rw [List.getElem?_append_right (by omega)]
    simp [hj]
  · simp

/-- the premises are satisfiable: a two-column line with one populated cell -/
example : (LineSpec.mk [⟨1, Str.ofString "ID", .uint32, some (.int 7)⟩, ⟨2, Str.ofString "Name", .string, none⟩]).WF := by
  refine ⟨by simp, ?_, by simp⟩
  intro col hcol v hv
  simp at hcol
  rcases hcol with h | h <;> subst h <;> simp at hv
  subst hv; decide

end TableauVerif.Props.C01VList
