/-
C07 — "innermost wins": the description of an error shows, for every key, the value attached by the
innermost layer that carries the key — at any nesting depth of `WrapKV` layers.

`xerrors.NewDesc` re-parses the rendered text `|k: v|k: v: |k: v: -1: |…|Reason: r: ` ; the theorem is about
that round trip through text (model `Model.Xerrors`, tied to the code by `corr.xerrors.newDesc`).
-/
import TableauVerif.Model.Xerrors
import TableauVerif.Spec.C07
namespace TableauVerif.Props.C07Desc
open TableauVerif TableauVerif.Model.Xerrors TableauVerif.Spec.C07

/-! ### splitting -/

theorem splitOn_ne_nil (c : Nat) (s : Str) : Str.splitOn c s ≠ [] := by
  induction s with
  | nil => simp [Str.splitOn]
  | cons x xs ih =>
    unfold Str.splitOn
    split
    · simp
    · split
      · rename_i h; exact absurd h ih
      · simp

theorem splitOn_no (c : Nat) (s : Str) (h : c ∉ s) : Str.splitOn c s = [s] := by
  induction s with
  | nil => simp [Str.splitOn]
  | cons x xs ih =>
    have hx : x ≠ c := fun e => h (by simp [e])
    have hxs : c ∉ xs := fun e => h (by simp [e])
    unfold Str.splitOn
    simp [hx, ih hxs]

theorem splitOn_append (c : Nat) (a b : Str) (h : c ∉ a) : Str.splitOn c (a ++ c :: b) = a :: Str.splitOn c b := by
  induction a with
  | nil => simp [Str.splitOn]
  | cons x xs ih =>
    have hx : x ≠ c := fun e => h (by simp [e])
    have hxs : c ∉ xs := fun e => h (by simp [e])
    simp only [List.cons_append]
    rw [Str.splitOn]
    simp [hx, ih hxs]

theorem splitFirst_at (c : Nat) (a b : Str) (h : c ∉ a) : Str.splitFirst c (a ++ c :: b) = some (a, b) := by
  induction a with
  | nil => simp [Str.splitFirst]
  | cons x xs ih =>
    have hx : x ≠ c := fun e => h (by simp [e])
    have hxs : c ∉ xs := fun e => h (by simp [e])
    simp [Str.splitFirst, hx, ih hxs]

/-! ### trimming -/

theorem dropWhile_none (p : Nat → Bool) (s : Str) (h : s.head?.any p = false) : s.dropWhile p = s := by
  cases s with
  | nil => rfl
  | cons x xs => simp at h; simp [List.dropWhile, h]

theorem dropWhile_all (p : Nat → Bool) (a b : Str) (h : a.all p = true) : (a ++ b).dropWhile p = b.dropWhile p := by
  induction a with
  | nil => rfl
  | cons x xs ih =>
    simp at h
    simp [List.dropWhile, h.1]
    exact ih (by simpa using h.2)

/-- trimming a value that is safe at both ends, preceded and followed by cut-set characters only -/
theorem trim_padded (p : Nat → Bool) (pre v post : Str) (hpre : pre.all p = true) (hpost : post.all p = true)
    (hh : v.head?.any p = false) (hl : v.getLast?.any p = false) :
    Str.trim p (pre ++ v ++ post) = v := by
  unfold Str.trim Str.dropWhileEnd
  rw [List.append_assoc, dropWhile_all p pre _ hpre]
  cases v with
  | nil =>
    simp only [List.nil_append]
    have : post.dropWhile p = [] := by
      have := dropWhile_all p post [] hpost
      simpa using this
    simp [this]
  | cons x xs =>
    have hx : p x = false := by simpa using hh
    have h1 : ((x :: xs) ++ post).dropWhile p = (x :: xs) ++ post := by
      simp [List.dropWhile, hx]
    rw [h1, List.reverse_append]
    have hrp : post.reverse.all p = true := by simpa using hpost
    rw [dropWhile_all p post.reverse _ hrp]
    have h2 : (x :: xs).reverse.dropWhile p = (x :: xs).reverse := by
      apply dropWhile_none
      rw [List.head?_reverse]
      exact hl
    rw [h2, List.reverse_reverse]

/-! ### the rendered text as a sequence of segments `|k: v<tail>` -/

abbrev Seg := Str × Str × Str

def flat : List Seg → Str
  | [] => []
  | (k, v, t) :: rest => [pipe] ++ k ++ [colon, space] ++ v ++ t ++ flat rest

/-- the pairs of a layer, the last one followed by `t` -/
def withTail : List KV → Str → List Seg
  | [], _ => []
  | [(k, v)], t => [(k, v, t)]
  | (k, v) :: rest, t => (k, v, []) :: withTail rest t

theorem flat_append (a b : List Seg) : flat (a ++ b) = flat a ++ flat b := by
  induction a with
  | nil => rfl
  | cons s rest ih => obtain ⟨k, v, t⟩ := s; simp [flat, ih]

theorem combineKV_tail (kvs : List KV) (t : Str) (h : kvs ≠ []) : combineKV kvs ++ t = flat (withTail kvs t) := by
  induction kvs with
  | nil => exact absurd rfl h
  | cons kv rest ih =>
    obtain ⟨k, v⟩ := kv
    cases rest with
    | nil => simp [combineKV, withTail, flat]
    | cons kv2 rest2 =>
      have := ih (by simp)
      simp only [combineKV, withTail, flat, List.append_assoc, List.nil_append] at this ⊢
      rw [this]

/-- text before the first `|`, and the segments, of a rendered error -/
def preOf : Err → Str
  | .leaf _ _ => [45, 49, colon, space]
  | .wrap [] inner => [colon, space] ++ preOf inner
  | .wrap (_ :: _) _ => []

def segsOf : Err → List Seg
  | .leaf kvs reason => withTail (kvs ++ [(reasonKey, reason)]) [colon, space]
  | .wrap [] inner => segsOf inner
  | .wrap (kv :: kvs) inner => withTail (kv :: kvs) ([colon, space] ++ preOf inner) ++ segsOf inner

theorem combineKV_append (a b : List KV) : combineKV (a ++ b) = combineKV a ++ combineKV b := by
  induction a with
  | nil => rfl
  | cons kv rest ih => obtain ⟨k, v⟩ := kv; simp [combineKV, ih]

theorem render_eq (e : Err) : render e = preOf e ++ flat (segsOf e) := by
  induction e with
  | leaf kvs reason =>
    simp only [render, preOf, segsOf]
    rw [← combineKV_tail _ _ (by simp), combineKV_append]
    simp [List.append_assoc]
  | wrap kvs inner ih =>
    cases kvs with
    | nil => simp [render, preOf, segsOf, combineKV, ih, List.append_assoc]
    | cons kv rest =>
      simp only [render, preOf, segsOf, flat_append, List.nil_append]
      rw [← combineKV_tail _ _ (by simp), ih]
      simp [List.append_assoc]

/-! ### what `NewDesc` reads back from the segments -/

def segPiece (s : Seg) : Str := s.1 ++ [colon, space] ++ s.2.1 ++ s.2.2

def NoPipe (s : Seg) : Prop := pipe ∉ s.1 ∧ pipe ∉ s.2.1 ∧ pipe ∉ s.2.2

theorem splitOn_flat (pre : Str) (segs : List Seg) (hpre : pipe ∉ pre) (h : ∀ s ∈ segs, NoPipe s) :
    Str.splitOn pipe (pre ++ flat segs) = pre :: segs.map segPiece := by
  induction segs generalizing pre with
  | nil => simp [flat, splitOn_no pipe pre hpre]
  | cons s rest ih =>
    obtain ⟨k, v, t⟩ := s
    have hs := h (k, v, t) (by simp)
    have hp : pipe ∉ segPiece (k, v, t) := by
      simp only [segPiece, List.mem_append, List.mem_cons, not_or]
      refine ⟨⟨⟨hs.1, ?_⟩, hs.2.1⟩, hs.2.2⟩
      simp [pipe, colon, space]
    have : pre ++ flat ((k, v, t) :: rest) = pre ++ pipe :: (segPiece (k, v, t) ++ flat rest) := by
      simp [flat, segPiece, List.append_assoc]
    rw [this, splitOn_append pipe pre _ hpre, ih _ hp (fun x hx => h x (by simp [hx]))]
    simp

/-- the `setField` call one segment leads to -/
def segSet (s : Seg) : KV := (Str.trim isTrimCut s.1, Str.trim isTrimCut ([space] ++ s.2.1 ++ s.2.2))

def preSets (pre : Str) : List KV :=
  match Str.splitFirst colon pre with
  | none => []
  | some (k, v) => [(Str.trim isTrimCut k, Str.trim isTrimCut v)]

theorem descSets_render (e : Err) (hpre : pipe ∉ preOf e) (h : ∀ s ∈ segsOf e, NoPipe s ∧ colon ∉ s.1) :
    descSets (render e) = preSets (preOf e) ++ (segsOf e).map segSet := by
  unfold descSets
  rw [render_eq, splitOn_flat _ _ hpre (fun s hs => (h s hs).1)]
  have hrest : ∀ (l : List Seg), (∀ s ∈ l, colon ∉ s.1) → (l.map segPiece).filterMap pieceSet = l.map segSet := by
    intro l hl
    induction l with
    | nil => rfl
    | cons s rest ih =>
      obtain ⟨k, v, t⟩ := s
      have hk := hl (k, v, t) (by simp)
      have hsf : Str.splitFirst colon (segPiece (k, v, t)) = some (k, [space] ++ v ++ t) := by
        have : segPiece (k, v, t) = k ++ colon :: ([space] ++ v ++ t) := by simp [segPiece, List.append_assoc]
        rw [this]; exact splitFirst_at colon k _ hk
      simp only [List.map_cons, List.filterMap_cons, pieceSet, hsf, segSet]
      rw [ih (fun x hx => hl x (by simp [hx]))]
  simp only [List.filterMap_cons]
  rw [hrest _ (fun s hs => (h s hs).2)]
  unfold preSets pieceSet
  cases Str.splitFirst colon (preOf e) with
  | none => rfl
  | some kv => rfl

/-! ### safety of the parts -/

theorem withTail_kv (kvs : List KV) (t : Str) : (withTail kvs t).map (fun s => (s.1, s.2.1)) = kvs := by
  induction kvs with
  | nil => rfl
  | cons kv rest ih =>
    obtain ⟨k, v⟩ := kv
    cases rest with
    | nil => rfl
    | cons kv2 rest2 => simp only [withTail, List.map_cons]; rw [ih]

theorem segs_kv (e : Err) : (segsOf e).map (fun s => (s.1, s.2.1)) = (layers e).flatten := by
  induction e with
  | leaf kvs reason => simp [segsOf, layers, withTail_kv]
  | wrap kvs inner ih =>
    cases kvs with
    | nil => simp [segsOf, layers, ih]
    | cons kv rest => simp only [segsOf, layers, List.map_append, withTail_kv, ih, List.flatten_cons]

/-- some wrap layer of `e` carries pairs -/
def hasWrapKV : Err → Bool
  | .leaf _ _ => false
  | .wrap [] inner => hasWrapKV inner
  | .wrap (_ :: _) _ => true

def allCut (t : Str) : Bool := t.all isTrimCut

theorem preOf_cut (e : Err) (h : hasWrapKV e = true) : allCut (preOf e) = true := by
  induction e with
  | leaf _ _ => simp [hasWrapKV] at h
  | wrap kvs inner ih =>
    cases kvs with
    | nil =>
      simp only [hasWrapKV] at h
      have := ih h
      simp only [preOf, allCut, List.all_append, List.all_cons, List.all_nil] at this ⊢
      simp [isTrimCut, colon, space, this, allCut] at *
    | cons _ _ => simp [preOf, allCut]

theorem preOf_chars (e : Err) : ∀ c ∈ preOf e, c = colon ∨ c = space ∨ c = 45 ∨ c = 49 := by
  induction e with
  | leaf _ _ => intro c hc; simp [preOf] at hc; omega
  | wrap kvs inner ih =>
    cases kvs with
    | nil =>
      intro c hc
      simp only [preOf, List.mem_append, List.mem_cons] at hc
      rcases hc with (hc | hc | hc) | hc
      · exact Or.inl hc
      · exact Or.inr (Or.inl hc)
      · simp at hc
      · exact ih c hc
    | cons _ _ => intro c hc; simp [preOf] at hc

theorem preOf_noPipe (e : Err) : pipe ∉ preOf e := by
  intro h
  have := preOf_chars e pipe h
  simp [pipe, colon, space] at this

/-! ### the junk key -/

def nonEmptyWraps (e : Err) : List (List KV) := ((layers e).dropLast).filter (fun l => !l.isEmpty)

theorem layers_ne_nil (e : Err) : layers e ≠ [] := by cases e <;> simp [layers]

theorem nonEmptyWraps_wrap (kvs : List KV) (inner : Err) :
    nonEmptyWraps (.wrap kvs inner) = (if kvs.isEmpty then [] else [kvs]) ++ nonEmptyWraps inner := by
  unfold nonEmptyWraps
  simp only [layers]
  rw [List.dropLast_cons_of_ne_nil (layers_ne_nil inner)]
  cases kvs <;> simp [List.filter_cons]

theorem nonEmptyWraps_nil_iff (e : Err) : nonEmptyWraps e = [] ↔ hasWrapKV e = false := by
  induction e with
  | leaf _ _ => simp [nonEmptyWraps, layers, hasWrapKV]
  | wrap kvs inner ih =>
    rw [nonEmptyWraps_wrap]
    cases kvs with
    | nil => simpa [hasWrapKV] using ih
    | cons _ _ => simp [hasWrapKV]

theorem junkKey_eq (e : Err) : junkKey e = (nonEmptyWraps e).getLast?.bind (fun l => l.getLast?.map (·.1)) := by
  unfold junkKey nonEmptyWraps
  simp only []
  cases (List.filter (fun l => !l.isEmpty) (layers e).dropLast).getLast? <;> rfl

theorem junkKey_wrap (kvs : List KV) (inner : Err) :
    junkKey (.wrap kvs inner) = if hasWrapKV inner then junkKey inner else kvs.getLast?.map (·.1) := by
  rw [junkKey_eq, junkKey_eq, nonEmptyWraps_wrap]
  cases hw : hasWrapKV inner with
  | true =>
    have hne : nonEmptyWraps inner ≠ [] := by
      intro h; rw [nonEmptyWraps_nil_iff] at h; simp [h] at hw
    cases hg : (nonEmptyWraps inner).getLast? with
    | none => rw [List.getLast?_eq_none_iff] at hg; exact absurd hg hne
    | some l => simp [List.getLast?_append, hg]
  | false =>
    have : nonEmptyWraps inner = [] := (nonEmptyWraps_nil_iff inner).mpr hw
    rw [this]
    cases kvs <;> simp

theorem junkKey_none (e : Err) (h : hasWrapKV e = false) : junkKey e = none := by
  rw [junkKey_eq, (nonEmptyWraps_nil_iff e).mpr h]; rfl

/-- every segment's value is followed by cut-set characters only — except the junk key's -/
theorem tails (e : Err) : ∀ s ∈ segsOf e, allCut s.2.2 = true ∨ junkKey e = some s.1 := by
  have hwt : ∀ (kvs : List KV) (t : Str) (s : Seg), s ∈ withTail kvs t →
      s.2.2 = [] ∨ (s.2.2 = t ∧ kvs.getLast?.map (·.1) = some s.1) := by
    intro kvs t
    induction kvs with
    | nil => intro s hs; simp [withTail] at hs
    | cons kv rest ih =>
      obtain ⟨k, v⟩ := kv
      cases rest with
      | nil => intro s hs; simp [withTail] at hs; subst hs; simp
      | cons kv2 rest2 =>
        intro s hs
        simp only [withTail, List.mem_cons] at hs
        rcases hs with rfl | hs
        · exact Or.inl rfl
        · have := ih s (by simpa [withTail] using hs)
          rcases this with h | ⟨h1, h2⟩
          · exact Or.inl h
          · exact Or.inr ⟨h1, by simpa [List.getLast?_cons_cons] using h2⟩
  induction e with
  | leaf kvs reason =>
    intro s hs
    simp only [segsOf] at hs
    rcases hwt _ _ s hs with h | ⟨h, _⟩
    · left; simp [h, allCut]
    · left; simp [h, allCut, isTrimCut, colon, space]
  | wrap kvs inner ih =>
    cases kvs with
    | nil =>
      intro s hs
      simp only [segsOf] at hs
      rw [junkKey_wrap]
      cases hw : hasWrapKV inner with
      | true => simpa [hw] using ih s hs
      | false =>
        rcases ih s hs with h | h
        · exact Or.inl h
        · rw [junkKey_none inner hw] at h; simp at h
    | cons kv rest =>
      intro s hs
      simp only [segsOf, List.mem_append] at hs
      rw [junkKey_wrap]
      cases hw : hasWrapKV inner with
      | true =>
        simp only [if_true]
        rcases hs with hs | hs
        · rcases hwt _ _ s hs with h | ⟨h, _⟩
          · left; simp [h, allCut]
          · left
            rw [h]
            have := preOf_cut inner hw
            simp [allCut, isTrimCut, colon, space] at this ⊢
            exact this
        · exact ih s hs
      | false =>
        simp only [Bool.false_eq_true, if_false]
        rcases hs with hs | hs
        · rcases hwt _ _ s hs with h | ⟨_, h⟩
          · left; simp [h, allCut]
          · right; exact h
        · rcases ih s hs with h | h
          · exact Or.inl h
          · rw [junkKey_none inner hw] at h; simp at h

/-! ### the theorem -/

theorem withTail_tail (kvs : List KV) (t : Str) : ∀ s ∈ withTail kvs t, s.2.2 = [] ∨ s.2.2 = t := by
  induction kvs with
  | nil => intro s hs; simp [withTail] at hs
  | cons kv rest ih =>
    obtain ⟨k, v⟩ := kv
    cases rest with
    | nil => intro s hs; simp [withTail] at hs; subst hs; simp
    | cons kv2 rest2 =>
      intro s hs
      simp only [withTail, List.mem_cons] at hs
      rcases hs with rfl | hs
      · exact Or.inl rfl
      · exact ih s (by simpa [withTail] using hs)

theorem tail_noPipe (e : Err) : ∀ s ∈ segsOf e, pipe ∉ s.2.2 := by
  induction e with
  | leaf kvs reason =>
    intro s hs
    rcases withTail_tail _ _ s hs with h | h <;> simp [h, pipe, colon, space]
  | wrap kvs inner ih =>
    cases kvs with
    | nil => exact ih
    | cons kv rest =>
      intro s hs
      simp only [segsOf, List.mem_append] at hs
      rcases hs with hs | hs
      · rcases withTail_tail _ _ s hs with h | h
        · simp [h]
        · rw [h]
          intro hp
          simp only [List.mem_append, List.mem_cons] at hp
          rcases hp with (hp | hp | hp) | hp
          · simp [pipe, colon] at hp
          · simp [pipe, space] at hp
          · simp at hp
          · exact preOf_noPipe inner hp
      · exact ih s hs

theorem preSets_keys (e : Err) : ∀ kv ∈ preSets (preOf e), kv.1 = [] ∨ kv.1 = [45, 49] := by
  cases e with
  | leaf kvs reason =>
    have h0 : preSets [45, 49, colon, space] = [([45, 49], [])] := by decide
    have : preSets (preOf (.leaf kvs reason)) = [([45, 49], [])] := h0
    rw [this]; intro kv hkv; simp at hkv; simp [hkv]
  | wrap kvs inner =>
    cases kvs with
    | nil =>
      intro kv hkv
      simp only [preOf, preSets, List.cons_append, List.nil_append, Str.splitFirst, if_true] at hkv
      simp at hkv
      left; rw [hkv]; rfl
    | cons _ _ => intro kv hkv; simp [preOf, preSets, Str.splitFirst] at hkv

theorem find_map_congr {α : Type} (l : List α) (f g : α → KV) (key : Str)
    (h : ∀ a ∈ l, (f a).1 = (g a).1 ∧ ((g a).1 = key → (f a).2 = (g a).2)) :
    ((l.map f).find? (fun kv => kv.1 == key)).map (·.2) = ((l.map g).find? (fun kv => kv.1 == key)).map (·.2) := by
  induction l with
  | nil => rfl
  | cons a rest ih =>
    have ha := h a (by simp)
    simp only [List.map_cons, List.find?_cons, ha.1]
    by_cases hk : (g a).1 = key
    · simp [hk, ha.2 hk]
    · have : ((g a).1 == key) = false := by simpa using hk
      simp only [this]
      exact ih (fun x hx => h x (by simp [hx]))

theorem safe_of_allSafe (e : Err) (h : allSafe e = true) :
    ∀ kv ∈ (layers e).flatten, safeKey kv.1 = true ∧ safeVal kv.2 = true := by
  intro kv hkv
  simp only [allSafe, List.all_eq_true, Bool.and_eq_true] at h
  obtain ⟨l, hl, hm⟩ := List.mem_flatten.mp hkv
  exact h l hl kv hm

theorem notMem_of_contains_false (s : Str) (c : Nat) (h : s.contains c = false) : c ∉ s := by
  intro hm
  have : s.contains c = true := by simpa using hm
  rw [h] at this; exact absurd this (by simp)

/-- **C07_desc_innermost**: for every error value — any number of `WrapKV` layers, any pairs in them — whose keys
and values survive the text protocol, the description built from the rendered text shows for `key` exactly the
value of the innermost layer carrying it (`none` if no layer does). Excluded, as in the specification: the key
whose value the protocol extends by the `-1` of the coded error (`junkKey`), and the literal key `-1`. -/
theorem C07_desc_innermost (e : Err) (key : Str) (hsafe : allSafe e = true) (hkey : safeKey key = true)
    (hnj : junkKey e ≠ some key) (hk1 : key ≠ [45, 49]) :
    newDescGet (render e) key = innermost e key := by
  have hall := safe_of_allSafe e hsafe
  have hseg : ∀ s ∈ segsOf e, safeKey s.1 = true ∧ safeVal s.2.1 = true := by
    intro s hs
    have : (s.1, s.2.1) ∈ (layers e).flatten := by
      rw [← segs_kv]; exact List.mem_map.mpr ⟨s, hs, rfl⟩
    exact hall _ this
  have hkeyParts : ∀ k : Str, safeKey k = true →
      k ≠ [] ∧ pipe ∉ k ∧ colon ∉ k ∧ k.head?.any isTrimCut = false ∧ k.getLast?.any isTrimCut = false := by
    intro k hk
    simp only [safeKey, Bool.and_eq_true, Bool.not_eq_true'] at hk
    obtain ⟨⟨⟨⟨h1, h2⟩, h3⟩, h4⟩, h5⟩ := hk
    refine ⟨?_, notMem_of_contains_false _ _ h2, notMem_of_contains_false _ _ h3, h4, h5⟩
    intro hnil; simp [hnil] at h1
  have hvalParts : ∀ v : Str, safeVal v = true →
      pipe ∉ v ∧ v.head?.any isTrimCut = false ∧ v.getLast?.any isTrimCut = false := by
    intro v hv
    simp only [safeVal, Bool.and_eq_true, Bool.not_eq_true'] at hv
    exact ⟨notMem_of_contains_false _ _ hv.1.1, hv.1.2, hv.2⟩
  have hsets := descSets_render e (preOf_noPipe e) (fun s hs => by
    have hk := hkeyParts s.1 (hseg s hs).1
    have hv := hvalParts s.2.1 (hseg s hs).2
    exact ⟨⟨hk.2.1, hv.1, tail_noPipe e s hs⟩, hk.2.2.1⟩)
  have hkq := hkeyParts key hkey
  -- the piece before the first `|` never carries the key
  have hpre : (preSets (preOf e)).reverse.find? (fun kv => kv.1 == key) = none := by
    rw [List.find?_eq_none]
    intro kv hkv
    have := preSets_keys e kv (by simpa using hkv)
    rcases this with h | h
    · simp [h]; exact fun h' => hkq.1 h'
    · simp [h]; exact fun h' => hk1 h'.symm
  unfold newDescGet descGet innermost
  rw [hsets, List.reverse_append, List.find?_append, hpre, Option.or_none, ← segs_kv]
  rw [← List.map_reverse, ← List.map_reverse]
  apply find_map_congr
  intro s hs
  have hs' : s ∈ segsOf e := by simpa using hs
  have hk := hkeyParts s.1 (hseg s hs').1
  have hv := hvalParts s.2.1 (hseg s hs').2
  have htrimk : Str.trim isTrimCut s.1 = s.1 := by
    have := trim_padded isTrimCut [] s.1 [] (by simp) (by simp) hk.2.2.2.1 hk.2.2.2.2
    simpa using this
  refine ⟨htrimk, fun heq => ?_⟩
  simp only at heq
  have hcut : allCut s.2.2 = true := by
    rcases tails e s hs' with h | h
    · exact h
    · rw [heq] at h; exact absurd h hnj
  simp only [segSet]
  exact trim_padded isTrimCut [space] s.2.1 s.2.2 (by simp [isTrimCut, space]) hcut hv.2.1 hv.2.2

-- the hypotheses are satisfiable (test, labelled as a test): two layers, the inner one overrides `DataCell`
example :
    let e : Err := .wrap [(Str.ofString "SheetName", Str.ofString "S"), (Str.ofString "DataCell", Str.ofString "outer")]
      (.wrap [(Str.ofString "DataCell", Str.ofString "inner"), (Str.ofString "ColumnName", Str.ofString "C")]
        (.leaf [(Str.ofString "ErrCode", Str.ofString "E2012")] (Str.ofString "bad")))
    allSafe e = true ∧ junkKey e = some (Str.ofString "ColumnName") ∧
      newDescGet (render e) (Str.ofString "DataCell") = some (Str.ofString "inner") := by
  decide

end TableauVerif.Props.C07Desc
