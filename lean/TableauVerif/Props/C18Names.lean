/-
C18 / C08 / C11 — naming a workbook by its file (document books: `C11_document_book_name`); naming a CSV workbook by one of its sheet files: for the file `<Dir>/<Book>#<Sheet>.csv`, whatever characters
the directory and the sheet name contain (`#` and `.` included), the book is `<Book>`, the sheet is `<Sheet>`
(`C08_csv_file_names_its_book_and_sheet`) and the workbook's key is `<Dir>/<Book>#*.csv`
(`C18_csv_book_key_keeps_the_directory`). The book name itself contains no `#`, no `/` and no `.`-free ambiguity is
needed: the split is at the FIRST `#` of the base name.
-/
import TableauVerif.Model.CsvName
namespace TableauVerif.Props.C18Names
open TableauVerif TableauVerif.Model.CsvName

theorem takeWhile_append_stop (p : Nat → Bool) (a b : Str) (c : Nat) (ha : ∀ x ∈ a, p x = true) (hc : p c = false) :
    (a ++ c :: b).takeWhile p = a := by
  induction a with
  | nil => simp [List.takeWhile, hc]
  | cons x xs ih =>
    simp only [List.cons_append, List.takeWhile, ha x (by simp)]
    rw [ih (fun y hy => ha y (by simp [hy]))]

theorem dropWhile_append_stop (p : Nat → Bool) (a b : Str) (c : Nat) (ha : ∀ x ∈ a, p x = true) (hc : p c = false) :
    (a ++ c :: b).dropWhile p = c :: b := by
  induction a with
  | nil => simp [List.dropWhile, hc]
  | cons x xs ih =>
    simp only [List.cons_append, List.dropWhile, ha x (by simp)]
    exact ih (fun y hy => ha y (by simp [hy]))

/-- base name of `dir/file` when `file` has no slash -/
theorem baseName_join (dir file : Str) (hf : ∀ x ∈ file, x ≠ slash) : baseName (dir ++ slash :: file) = file := by
  unfold baseName
  have : (dir ++ slash :: file).reverse = file.reverse ++ slash :: dir.reverse := by simp
  rw [this, takeWhile_append_stop _ file.reverse dir.reverse slash (by intro x hx; simpa using hf x (by simpa using hx)) (by simp)]
  simp

theorem takeWhile_all (p : Nat → Bool) (a : Str) (ha : ∀ x ∈ a, p x = true) : a.takeWhile p = a := by
  induction a with
  | nil => rfl
  | cons x xs ih =>
    simp only [List.takeWhile, ha x (by simp)]
    rw [ih (fun y hy => ha y (by simp [hy]))]

theorem baseName_plain (file : Str) (hf : ∀ x ∈ file, x ≠ slash) : baseName file = file := by
  unfold baseName
  rw [takeWhile_all _ file.reverse (by intro x hx; simpa using hf x (by simpa using hx))]
  simp

/-- extension of `<stem>.csv` when the stem may contain dots -/
theorem trimExt_csv (stem : Str) : trimExt (stem ++ [dot, 99, 115, 118]) = stem := by
  have hc : (stem ++ [dot, 99, 115, 118]).contains dot = true := by simp [dot]
  have hrev : (stem ++ [dot, 99, 115, 118]).reverse = [118, 115, 99] ++ dot :: stem.reverse := by simp
  have hext : extOf (stem ++ [dot, 99, 115, 118]) = [dot, 99, 115, 118] := by
    unfold extOf
    rw [if_pos hc, hrev, takeWhile_append_stop _ [118, 115, 99] stem.reverse dot (by intro x hx; simp at hx; rcases hx with h | h | h <;> subst h <;> decide) (by simp)]
    rfl
  unfold trimExt
  rw [hext]
  simp

/-- the general form: any extension without a dot inside; the stem may end in any letters and contain dots -/
theorem trimExt_ext (stem e : Str) (he : ∀ x ∈ e, x ≠ dot) : trimExt (stem ++ dot :: e) = stem := by
  have hc : (stem ++ dot :: e).contains dot = true := by simp
  have hrev : (stem ++ dot :: e).reverse = e.reverse ++ dot :: stem.reverse := by simp
  have hext : extOf (stem ++ dot :: e) = dot :: e := by
    unfold extOf
    rw [if_pos hc, hrev, takeWhile_append_stop _ e.reverse stem.reverse dot
      (by intro x hx; simpa using he x (by simpa using hx)) (by simp)]
    simp
  unfold trimExt
  rw [hext]
  simp

/-- **C11_document_book_name**: the book name of `<Dir>/<Stem>.<ext>` (YAML / XML workbooks: base name without the
extension) is `<Stem>` — whatever letters the stem ends in, dots inside it included -/
theorem C11_document_book_name (dir stem e : Str) (hs : ∀ x ∈ stem, x ≠ slash) (he : ∀ x ∈ e, x ≠ dot ∧ x ≠ slash) :
    trimExt (baseName (dir ++ slash :: (stem ++ dot :: e))) = stem := by
  have hfile : ∀ x ∈ stem ++ dot :: e, x ≠ slash := by
    intro x hx
    simp only [List.mem_append, List.mem_cons] at hx
    rcases hx with h | h | h
    · exact hs x h
    · subst h; decide
    · exact (he x h).2
  rw [baseName_join dir _ hfile, trimExt_ext stem e (fun x hx => (he x hx).1)]

example : trimExt (baseName (Str.ofString "in/HeroArena.yaml")) = Str.ofString "HeroArena" := by decide

/-- **C08_csv_file_names_its_book_and_sheet**: the split is at the first `#` of the base name -/
theorem C08_csv_file_names_its_book_and_sheet (book sheet : Str)
    (hb : ∀ x ∈ book, x ≠ hash ∧ x ≠ slash) (hs : ∀ x ∈ sheet, x ≠ slash) (dir : Option Str) :
    parseFilename ((match dir with | some d => d ++ [slash] | none => []) ++ book ++ hash :: sheet ++ [dot, 99, 115, 118])
      = some (book, sheet) := by
  have hfile : ∀ x ∈ book ++ hash :: sheet ++ [dot, 99, 115, 118], x ≠ slash := by
    intro x hx
    simp only [List.mem_append, List.mem_cons, List.mem_nil_iff, or_false] at hx
    rcases hx with (h | h | h) | h
    · exact (hb x h).2
    · subst h; decide
    · exact hs x h
    · rcases h with h | h | h | h <;> subst h <;> decide
  have hbase : baseName ((match dir with | some d => d ++ [slash] | none => []) ++ book ++ hash :: sheet ++ [dot, 99, 115, 118])
      = book ++ hash :: sheet ++ [dot, 99, 115, 118] := by
    cases dir with
    | none => simpa using baseName_plain _ hfile
    | some d =>
      have := baseName_join d (book ++ hash :: sheet ++ [dot, 99, 115, 118]) hfile
      simpa [List.append_assoc] using this
  unfold parseFilename
  rw [hbase, trimExt_csv]
  unfold cutFirst
  have hc : (book ++ hash :: sheet).contains hash = true := by simp
  rw [if_pos hc, takeWhile_append_stop _ book sheet hash (by intro x hx; simpa using (hb x hx).1) (by simp),
    dropWhile_append_stop _ book sheet hash (by intro x hx; simpa using (hb x hx).1) (by simp)]
  simp

/-- **C18_csv_book_key_keeps_the_directory**: `<Dir>/<Book>#<Sheet>.csv` ↦ `<Dir>/<Book>#*.csv`, for any directory text
(it may contain `#`, `.` and further slashes) that does not end in a slash and is not the root -/
theorem C18_csv_book_key_keeps_the_directory (d book sheet : Str)
    (hb : ∀ x ∈ book, x ≠ hash ∧ x ≠ slash) (hs : ∀ x ∈ sheet, x ≠ slash)
    (hd : d ≠ [] ∧ d ≠ [dot] ∧ d ≠ [slash]) :
    bookPattern (d ++ [slash] ++ book ++ hash :: sheet ++ [dot, 99, 115, 118]) = some (d ++ slash :: (book ++ csvPatternTail)) := by
  have hp := C08_csv_file_names_its_book_and_sheet book sheet hb hs (some d)
  simp only [] at hp
  have hfile : ∀ x ∈ book ++ hash :: sheet ++ [dot, 99, 115, 118], x ≠ slash := by
    intro x hx
    simp only [List.mem_append, List.mem_cons, List.mem_nil_iff, or_false] at hx
    rcases hx with (h | h | h) | h
    · exact (hb x h).2
    · subst h; decide
    · exact hs x h
    · rcases h with h | h | h | h <;> subst h <;> decide
  have hdir : dirName (d ++ [slash] ++ book ++ hash :: sheet ++ [dot, 99, 115, 118]) = d := by
    unfold dirName
    have hrev : (d ++ [slash] ++ book ++ hash :: sheet ++ [dot, 99, 115, 118]).reverse
        = (book ++ hash :: sheet ++ [dot, 99, 115, 118]).reverse ++ slash :: d.reverse := by simp [List.append_assoc]
    rw [hrev, dropWhile_append_stop _ _ d.reverse slash
      (by intro x hx; have := hfile x (List.mem_reverse.mp hx); simpa using this) (by simp)]
    have hne : d ≠ [] := hd.1
    cases d with
    | nil => exact absurd rfl hne
    | cons a as =>
      have e : (slash :: (a :: as).reverse).reverse = (a :: as) ++ [slash] := by simp
      rw [e]
      have e2 : ((a :: as) ++ [slash]).dropLast = a :: as := List.dropLast_concat
      have e3 : ((a :: as) ++ [slash]).isEmpty = false := by simp
      have e4 : ¬ (((a :: as) ++ [slash]).length = 1) := by simp
      generalize (a :: as) ++ [slash] = X at e2 e3 e4
      simp only [e3, Bool.false_eq_true, if_false, e4, e2]
  unfold bookPattern
  rw [hp]
  simp only [Option.map_some, hdir, joinDir, hd.2.1, hd.2.2, if_false]

-- tests (labelled as tests): '#' in the directory and in the sheet name
example : bookPattern (Str.ofString "conf#v2/Item#Item.csv") = some (Str.ofString "conf#v2/Item#*.csv") := by decide
example : parseFilename (Str.ofString "Shop#Item#1.csv") = some (Str.ofString "Shop", Str.ofString "Item#1") := by decide
example : parseFilename (Str.ofString "in/a.b/Item.csv") = none := by decide

end TableauVerif.Props.C18Names
