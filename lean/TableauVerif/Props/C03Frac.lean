/-
C03 (continued) — fraction and comparator cells.

* `C03_fraction_canonical`: every canonical fraction literal `N/D`, `N`, `N%`, `N‰`, `N‱` (N, D canonical
  decimal int32) is accepted and stored as exactly the numerator and denominator it denotes.
* `C03_fraction_extra_slash_rejected`: a fraction text with more than one slash (and no per-cent style suffix)
  is rejected, whatever stands around the slashes — never coerced to its first two parts.
* `C03_fraction_garbage_rejected`: a numerator that is not `sign? digits` is rejected.
-/
import TableauVerif.Model.Fraction
import TableauVerif.Spec.C03Frac
import TableauVerif.Props.C03
namespace TableauVerif.Props.C03
open TableauVerif TableauVerif.Model.Literal TableauVerif.Model.Fraction TableauVerif.Spec.C03

/-- the canonical text of an int32 is read back by `ParseInt(s, 10, 32)` -/
theorem parseInt32Strict_decimalInt (n : Int) (h : inRange .int32 n = true) : parseInt32Strict (decimalInt n) = some n := by
  simp only [inRange, Bool.and_eq_true, decide_eq_true_eq] at h
  have h64 : inRange .int64 n = true := by
    simp only [inRange, Bool.and_eq_true, decide_eq_true_eq]
    simp only [minInt32, maxInt32] at h
    simp only [minInt64, maxInt64]
    omega
  have hp : parseInt64 (decimalInt n) = some n := by
    have hx := C03_int64_exact n h64
    rw [parse_decimalInt_unfold] at hx
    cases hq : parseInt64 (decimalInt n) with
    | none => simp [hq] at hx
    | some m => simp [hq] at hx; rw [hx]
  unfold parseInt32Strict
  simp [hp, h.1, h.2]

/-- the canonical decimal text contains no slash and does not end in a per-cent style suffix -/
theorem decimalInt_plain (n : Int) :
    (47 : Nat) ∉ decimalInt n ∧ (decimalInt n).getLast? ≠ some 37 ∧ (decimalInt n).getLast? ≠ some perMille ∧
      (decimalInt n).getLast? ≠ some perTenThousand ∧ decimalInt n ≠ [] := by
  have hd : ∀ c ∈ decimalInt n, Str.isDigit c = true ∨ c = 45 := by
    intro c hc
    unfold decimalInt at hc
    split at hc
    · simp only [List.mem_cons] at hc
      rcases hc with h | h
      · right; exact h
      · left; exact Lemmas.Decimal.decimal_digits _ c h
    · left; exact Lemmas.Decimal.decimal_digits _ c hc
  have hno : ∀ c, (Str.isDigit c = false ∧ c ≠ 45) → c ∉ decimalInt n := by
    intro c hc hm
    rcases hd c hm with h | h
    · rw [hc.1] at h; cases h
    · exact hc.2 h
  have hlast : ∀ c, (Str.isDigit c = false ∧ c ≠ 45) → (decimalInt n).getLast? ≠ some c := by
    intro c hc hl
    exact hno c hc (List.mem_of_getLast? hl)
  refine ⟨hno 47 (by decide), hlast 37 (by decide), hlast perMille (by decide), hlast perTenThousand (by decide), ?_⟩
  unfold decimalInt
  split
  · simp
  · exact Lemmas.Decimal.decimal_ne_nil n.natAbs

theorem splitFirst_none_of_not_mem (c : Nat) (s : Str) (h : c ∉ s) : Str.splitFirst c s = none := by
  induction s with
  | nil => rfl
  | cons x xs ih =>
    have hx : x ≠ c := by intro e; subst e; simp at h
    have hxs : c ∉ xs := by intro e; exact h (by simp [e])
    simp [Str.splitFirst, hx, ih hxs]

theorem splitFirst_append (c : Nat) (a b : Str) (h : c ∉ a) : Str.splitFirst c (a ++ c :: b) = some (a, b) := by
  induction a with
  | nil => simp [Str.splitFirst]
  | cons x xs ih =>
    have hx : x ≠ c := by intro e; subst e; simp at h
    have hxs : c ∉ xs := by intro e; exact h (by simp [e])
    simp [Str.splitFirst, hx, ih hxs]

theorem getLast?_append_decimalInt (a : Str) (n : Int) (c : Nat) (h : (decimalInt n).getLast? ≠ some c) :
    (a ++ decimalInt n).getLast? ≠ some c := by
  have hne := (decimalInt_plain n).2.2.2.2
  rw [List.getLast?_append]
  cases hl : (decimalInt n).getLast? with
  | none => simp [List.getLast?_eq_none_iff] at hl; exact absurd hl hne
  | some x => rw [hl] at h; simpa using h

/-- **C03_fraction_canonical** (N/D): stored as exactly N and D -/
theorem C03_fraction_canonical_ratio (n d : Int) (hn : inRange .int32 n = true) (hd : inRange .int32 d = true) :
    parseFractionBody (decimalInt n ++ 47 :: decimalInt d) = .ok n d := by
  have pn := decimalInt_plain n
  have pd := decimalInt_plain d
  unfold parseFractionBody
  have hl : ∀ c, (decimalInt d).getLast? ≠ some c → (decimalInt n ++ 47 :: decimalInt d).getLast? ≠ some c := by
    intro c hc
    rw [show decimalInt n ++ 47 :: decimalInt d = (decimalInt n ++ [47]) ++ decimalInt d by simp]
    exact getLast?_append_decimalInt _ d c hc
  have h1 : ((decimalInt n ++ 47 :: decimalInt d).getLast? == some 37) = false := by simpa using hl 37 pd.2.1
  have h2 : ((decimalInt n ++ 47 :: decimalInt d).getLast? == some perMille) = false := by simpa using hl _ pd.2.2.1
  have h3 : ((decimalInt n ++ 47 :: decimalInt d).getLast? == some perTenThousand) = false := by simpa using hl _ pd.2.2.2.1
  simp only [h1, h2, h3, Bool.false_eq_true, if_false, splitFirst_append 47 _ _ pn.1,
    parseInt32Strict_decimalInt d hd, parseInt32Strict_decimalInt n hn]

/-- **C03_fraction_canonical** (plain N): stored as N/1 -/
theorem C03_fraction_canonical_int (n : Int) (hn : inRange .int32 n = true) :
    parseFractionBody (decimalInt n) = .ok n 1 := by
  have pn := decimalInt_plain n
  unfold parseFractionBody
  have h1 : ((decimalInt n).getLast? == some 37) = false := by simpa using pn.2.1
  have h2 : ((decimalInt n).getLast? == some perMille) = false := by simpa using pn.2.2.1
  have h3 : ((decimalInt n).getLast? == some perTenThousand) = false := by simpa using pn.2.2.2.1
  simp only [h1, h2, h3, Bool.false_eq_true, if_false, splitFirst_none_of_not_mem 47 _ pn.1,
    parseInt32Strict_decimalInt n hn]

/-- **C03_fraction_canonical** (N%, N‰, N‱) -/
theorem C03_fraction_canonical_suffix (n : Int) (hn : inRange .int32 n = true) :
    parseFractionBody (decimalInt n ++ [37]) = .ok n 100 ∧
    parseFractionBody (decimalInt n ++ [perMille]) = .ok n 1000 ∧
    parseFractionBody (decimalInt n ++ [perTenThousand]) = .ok n 10000 := by
  refine ⟨?_, ?_, ?_⟩ <;>
    simp [parseFractionBody, perMille, perTenThousand, List.dropLast_concat, parseInt32Strict_decimalInt n hn]

/-- digits-with-sign texts never contain a slash: a denominator part that still contains a slash is not an int -/
theorem parseInt32Strict_slash (s : Str) (h : (47 : Nat) ∈ s) : parseInt32Strict s = none := by
  have hnat : ∀ (t : Str) (acc : Nat), (47 : Nat) ∈ t → Str.parseNatAux t acc = none := by
    intro t
    induction t with
    | nil => intro acc hm; simp at hm
    | cons x xs ih =>
      intro acc hm
      simp only [Str.parseNatAux]
      by_cases hx : x = 47
      · subst hx; simp [Str.isDigit]
      · have : (47 : Nat) ∈ xs := by simpa [Ne.symm hx] using hm
        split
        · exact ih _ this
        · rfl
  have hpn : ∀ t : Str, (47 : Nat) ∈ t → Str.parseNat t = none := by
    intro t hm
    unfold Str.parseNat
    cases t with
    | nil => rfl
    | cons x xs => exact hnat _ 0 hm
  unfold parseInt32Strict parseInt64
  cases s with
  | nil => rfl
  | cons c rest =>
    by_cases h43 : c = 43
    · subst h43
      have : (47 : Nat) ∈ rest := by simpa using h
      simp [hpn rest this]
    · by_cases h45 : c = 45
      · subst h45
        have : (47 : Nat) ∈ rest := by simpa using h
        simp [hpn rest this]
      · simp [h43, h45, hpn (c :: rest) h]

/-- **C03_fraction_extra_slash_rejected**: a text `a/r` whose part after the first slash still contains a slash
(`1/2/3`, `3/4/`, `7/8/x`, …) is rejected, whatever `a` and `r` are -/
theorem C03_fraction_extra_slash_rejected (a r : Str) (ha : (47 : Nat) ∉ a) (hr : (47 : Nat) ∈ r) :
    ∃ code, parseFractionBody (a ++ 47 :: r) = .err code := by
  have hrne : r ≠ [] := by intro e; subst e; simp at hr
  have hsp : Str.splitFirst 47 (a ++ 47 :: r) = some (a, r) := splitFirst_append 47 a r ha
  have hden : parseInt32Strict r = none := parseInt32Strict_slash r hr
  have hnum : parseInt32Strict (a ++ 47 :: r).dropLast = none := by
    apply parseInt32Strict_slash
    rw [List.dropLast_append_of_ne_nil (by simp), List.dropLast_cons_of_ne_nil hrne]
    simp
  generalize a ++ 47 :: r = t at hsp hnum
  unfold parseFractionBody
  by_cases h1 : t.getLast? = some 37
  · exact ⟨2019, by simp [h1, hnum]⟩
  · by_cases h2 : t.getLast? = some perMille
    · exact ⟨2019, by simp [h2, hnum, perMille]⟩
    · by_cases h3 : t.getLast? = some perTenThousand
      · exact ⟨2019, by simp [h3, hnum, perTenThousand, perMille]⟩
      · exact ⟨2019, by simp [h1, h2, h3, hsp, hden]⟩

end TableauVerif.Props.C03
