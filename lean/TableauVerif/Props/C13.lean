/-
C13 — Patching follows the documented merge/replace semantics.
Property theorems about the model `Model.Patch` (tied to xproto.PatchMessage by corr.xproto.patch).
-/
import TableauVerif.Model.Patch
import TableauVerif.Lemmas.Val
namespace TableauVerif.Props.C13
open TableauVerif TableauVerif.Val TableauVerif.Model.Patch TableauVerif.Lemmas.Val

/-- **C13_identity**: an empty patch is the identity. -/
theorem C13_identity (d : List FieldDesc) (dfs : List (Nat × Val)) : patch d (.msg dfs) (.msg []) = .msg dfs := by
  simp [patch, patchFields]

/-- one `Range` step touches only its own field -/
theorem patchScalar_other (d : List FieldDesc) (dst : List (Nat × Val)) (n k : Nat) (v : Val) (h : k ≠ n) :
    getF (patchScalar d dst n v) k = getF dst k := by
  unfold patchScalar
  split
  · rename_i fd _
    split
    · by_cases hr : fd.replace
      · simp [hr, getF_setF_other _ _ _ _ h, getF_delF_other _ _ _ h]
      · simp [hr, getF_setF_other _ _ _ _ h]
    · rfl
  · rfl

theorem patchField_other (d : List FieldDesc) (dst : List (Nat × Val)) (n k : Nat) (v : Val) (h : k ≠ n) :
    getF (patchField d dst n v) k = getF dst k := by
  cases v with
  | int i => simp [patchField, patchScalar_other _ _ _ _ _ h]
  | str s => simp [patchField, patchScalar_other _ _ _ _ _ h]
  | flt b => simp [patchField, patchScalar_other _ _ _ _ _ h]
  | msg sfs =>
    simp only [patchField]
    split
    · rename_i fd _
      split
      · by_cases hr : fd.replace
        · simp [hr, getF_setF_other _ _ _ _ h, getF_delF_other _ _ _ h]
        · simp [hr, getF_setF_other _ _ _ _ h]
      · rfl
    · rfl
  | list svs =>
    simp only [patchField]
    split
    · rename_i fd _
      split
      · by_cases hr : fd.replace
        · simp [hr, getF_setF_other _ _ _ _ h, getF_delF_other _ _ _ h]
        · simp [hr, getF_setF_other _ _ _ _ h]
      · rfl
    · rfl
  | map ses =>
    simp only [patchField]
    split
    · rename_i fd _
      split
      · by_cases hr : fd.replace
        · simp [hr, getF_setF_other _ _ _ _ h, getF_delF_other _ _ _ h]
        · simp [hr, getF_setF_other _ _ _ _ h]
      · rfl
    · rfl

/-- **C13_frame**: a field that is not populated in the patch keeps its value (nothing else changes). -/
theorem C13_frame (d : List FieldDesc) (src dst : List (Nat × Val)) (k : Nat)
    (h : ∀ kv ∈ src, kv.1 ≠ k) : getF (patchFields d dst src) k = getF dst k := by
  induction src generalizing dst with
  | nil => simp [patchFields]
  | cons kv rest ih =>
    obtain ⟨n, v⟩ := kv
    simp only [patchFields]
    rw [ih _ (fun kv hkv => h kv (by simp [hkv]))]
    exact patchField_other d dst n k v (fun hk => h (n, v) (by simp) hk.symm)

/-- **C13_field**: with distinct field numbers in the patch, the resulting value of a populated field is
what its own `Range` step computes from dst's value of THAT field — independent of every other field
and of the position at which `Range` visits it. -/
theorem C13_field (d : List FieldDesc) (src dst : List (Nat × Val)) (n : Nat) (v : Val)
    (hnodup : (src.map (·.1)).Nodup) (hmem : (n, v) ∈ src) :
    getF (patchFields d dst src) n = getF (patchField d dst n v) n := by
  induction src generalizing dst with
  | nil => simp at hmem
  | cons kv rest ih =>
    obtain ⟨m, w⟩ := kv
    simp only [List.map_cons, List.nodup_cons] at hnodup
    simp only [patchFields]
    cases hmem with
    | head =>
      -- the field is visited now; the rest never touches it
      exact C13_frame d rest _ n (fun kv hkv hk => hnodup.1 (by
        rw [← hk]; exact List.mem_map_of_mem hkv))
    | tail _ hrest =>
      have hne : n ≠ m := by
        intro hnm
        apply hnodup.1
        rw [← hnm]
        exact List.mem_map_of_mem (f := (·.1)) hrest
      rw [ih (patchField d dst m w) hnodup.2 hrest]
      -- the step for n depends on dst only through field n, which the step for m left alone
      have hget : getF (patchField d dst m w) n = getF dst n := patchField_other d dst m n w hne
      have hdel : getF (delF (patchField d dst m w) n) n = getF (delF dst n) n := by
        simp [getF_delF_same]
      cases v with
      | int i => simp [patchField, patchScalar]; split <;> (try split) <;> simp [getF_setF_same, hget]
      | str s => simp [patchField, patchScalar]; split <;> (try split) <;> simp [getF_setF_same, hget]
      | flt b => simp [patchField, patchScalar]; split <;> (try split) <;> simp [getF_setF_same, hget]
      | msg sfs =>
        simp only [patchField]
        split
        · rename_i fd _
          split
          · by_cases hr : fd.replace
            · simp [hr, getF_setF_same, getF_delF_same]
            · simp [hr, getF_setF_same, hget]
          · exact hget
        · exact hget
      | list svs =>
        simp only [patchField]
        split
        · rename_i fd _
          split
          · by_cases hr : fd.replace
            · simp [hr, getF_setF_same, getF_delF_same]
            · simp [hr, getF_setF_same, hget]
          · exact hget
        · exact hget
      | map ses =>
        simp only [patchField]
        split
        · rename_i fd _
          split
          · by_cases hr : fd.replace
            · simp [hr, getF_setF_same, getF_delF_same]
            · simp [hr, getF_setF_same, hget]
          · exact hget
        · exact hget

/-- **C13_order_independent**: the result does not depend on the order in which `Range` enumerates
the populated fields of the patch (any permutation gives the same value for every field). -/
theorem C13_order_independent (d : List FieldDesc) (src src' dst : List (Nat × Val)) (k : Nat)
    (hperm : src.Perm src') (hnodup : (src.map (·.1)).Nodup) :
    getF (patchFields d dst src) k = getF (patchFields d dst src') k := by
  have hnodup' : (src'.map (·.1)).Nodup := (hperm.map (·.1)).nodup_iff.mp hnodup
  by_cases hk : ∃ v, (k, v) ∈ src
  · obtain ⟨v, hv⟩ := hk
    rw [C13_field d src dst k v hnodup hv, C13_field d src' dst k v hnodup' (hperm.mem_iff.mp hv)]
  · have h1 : ∀ kv ∈ src, kv.1 ≠ k := fun kv hkv hkk => hk ⟨kv.2, by rw [← hkk]; exact hkv⟩
    have h2 : ∀ kv ∈ src', kv.1 ≠ k := fun kv hkv => h1 kv (hperm.mem_iff.mpr hkv)
    rw [C13_frame d src dst k h1, C13_frame d src' dst k h2]

/-- **C13_scalar**: a populated scalar (non-message singular) field of the patch overwrites dst's. -/
theorem C13_scalar (d : List FieldDesc) (dst : List (Nat × Val)) (fd : FieldDesc) (v : Val)
    (hfd : FieldDesc.find d fd.num = some fd) (hcard : fd.card = .one) (hmsg : fd.isMsg = false) :
    getF (patchScalar d dst fd.num v) fd.num = some v := by
  unfold patchScalar
  simp [hfd, hcard, hmsg, getF_setF_same]

/-- **C13_list**: list elements of the patch are appended to dst's (scalar element type) -/
theorem C13_list (d : List FieldDesc) (dst : List (Nat × Val)) (fd : FieldDesc) (old svs : List Val)
    (hfd : FieldDesc.find d fd.num = some fd) (hcard : fd.card = .list) (hrep : fd.replace = false)
    (hold : getF dst fd.num = some (.list old)) :
    getF (patchField d dst fd.num (.list svs)) fd.num = some (.list (old ++ patchElems fd.isMsg fd.sub svs)) := by
  simp [patchField, hfd, hcard, hrep, hold, getF_setF_same]

/-- the populated value has the shape its descriptor says (always true of protoreflect values) -/
def wellTyped (fd : FieldDesc) : Val → Bool
  | .int _ | .str _ | .flt _ => fd.card == .one && !fd.isMsg
  | .msg _ => fd.card == .one && fd.isMsg
  | .list _ => fd.card == .list
  | .map _ => fd.card == .map

/-- **C13_replace**: for a field marked PATCH_REPLACE, dst's old value of the field is irrelevant:
the result is the same as for a dst in which the field was cleared. -/
theorem C13_replace (d : List FieldDesc) (dst : List (Nat × Val)) (fd : FieldDesc) (v : Val)
    (hfd : FieldDesc.find d fd.num = some fd) (hrep : fd.replace = true) (hwt : wellTyped fd v = true) :
    getF (patchField d dst fd.num v) fd.num = getF (patchField d (delF dst fd.num) fd.num v) fd.num := by
  cases v with
  | int i => simp [wellTyped] at hwt; simp [patchField, patchScalar, hfd, hrep, hwt, getF_setF_same]
  | str s => simp [wellTyped] at hwt; simp [patchField, patchScalar, hfd, hrep, hwt, getF_setF_same]
  | flt b => simp [wellTyped] at hwt; simp [patchField, patchScalar, hfd, hrep, hwt, getF_setF_same]
  | msg sfs => simp [wellTyped] at hwt; simp [patchField, hfd, hrep, hwt, getF_setF_same, getF_delF_same]
  | list svs => simp [wellTyped] at hwt; simp [patchField, hfd, hrep, hwt, getF_setF_same, getF_delF_same]
  | map ses => simp [wellTyped] at hwt; simp [patchField, hfd, hrep, hwt, getF_setF_same, getF_delF_same]

/-- and a replaced scalar/list/map/message field equals what patching an EMPTY message gives -/
theorem C13_replace_eq_from_empty (d : List FieldDesc) (dst : List (Nat × Val)) (fd : FieldDesc) (v : Val)
    (hfd : FieldDesc.find d fd.num = some fd) (hrep : fd.replace = true) (hwt : wellTyped fd v = true) :
    getF (patchField d dst fd.num v) fd.num = getF (patchField d [] fd.num v) fd.num := by
  cases v with
  | int i => simp [wellTyped] at hwt; simp [patchField, patchScalar, hfd, hrep, hwt, getF_setF_same]
  | str s => simp [wellTyped] at hwt; simp [patchField, patchScalar, hfd, hrep, hwt, getF_setF_same]
  | flt b => simp [wellTyped] at hwt; simp [patchField, patchScalar, hfd, hrep, hwt, getF_setF_same]
  | msg sfs => simp [wellTyped] at hwt; simp [patchField, hfd, hrep, hwt, getF_setF_same, getF_delF_same, delF, getF]
  | list svs => simp [wellTyped] at hwt; simp [patchField, hfd, hrep, hwt, getF_setF_same, getF_delF_same, delF, getF]
  | map ses => simp [wellTyped] at hwt; simp [patchField, hfd, hrep, hwt, getF_setF_same, getF_delF_same, delF, getF]

-- non-vacuity: a descriptor with a PATCH_REPLACE list and a concrete well-typed patch value
example : wellTyped (.mk 2 .list true false []) (.list [.int 1]) = true ∧
    (FieldDesc.find [.mk 1 .one false false [], .mk 2 .list true false []] 2).isSome = true := by
  decide

/-! ### load.Load with patch files (model `Model.Patch.load`, tied by e2e.C13.load) -/

/-- **C13_load_only_main**: in only-main mode the patch files are ignored, whatever they hold -/
theorem C13_load_only_main (d : List FieldDesc) (pt : PatchType) (main : Val) (ps : List (Option Val)) :
    load d pt .onlyMain main ps = main := by
  simp [load, loadWith]

/-- **C13_load_missing_files_ignored**: patch files that do not exist change nothing, wherever they stand in
the given order -/
theorem C13_load_missing_files_ignored (d : List FieldDesc) (pt : PatchType) (mode : LoadMode) (main : Val)
    (ps qs : List (Option Val)) :
    load d pt mode main (ps ++ none :: qs) = load d pt mode main (ps ++ qs) := by
  simp [load, loadWith, List.filterMap_append]

/-- **C13_load_merge_in_order**: merge mode applies every existing patch file in the given order: loading with
one more patch file at the end is patching the previous result with it -/
theorem C13_load_merge_in_order (d : List FieldDesc) (mode : LoadMode) (hm : mode ≠ .onlyMain) (main p q : Val)
    (ps : List (Option Val)) :
    load d .merge mode main (some p :: ps ++ [some q]) = patch d (load d .merge mode main (some p :: ps)) q := by
  cases mode <;> simp_all [load, loadWith, List.filterMap_append, List.foldl_append, List.getLast?_append, List.getLast?_cons]
  all_goals
    cases h : (List.filterMap id ps).getLast? <;> simp [h]

/-- **C13_load_empty_patch_identity**: a patch file holding the empty message is the identity in merge mode,
at any position (the patched result is a message whenever the main file's is) -/
theorem C13_load_empty_patch_identity (d : List FieldDesc) (mode : LoadMode) (mfs : List (Nat × Val))
    (ps qs : List (Option Val)) (hps : ∀ p ∈ ps, ∀ v, p = some v → ∃ fs, v = .msg fs)
    (hne : (ps ++ qs).filterMap id ≠ []) :
    load d .merge mode (.msg mfs) (ps ++ some (.msg []) :: qs) = load d .merge mode (.msg mfs) (ps ++ qs) := by
  have hmsg : ∀ (l : List Val) (acc : List (Nat × Val)), (∀ v ∈ l, ∃ fs, v = .msg fs) →
      ∃ fs, l.foldl (patch d) (.msg acc) = .msg fs := by
    intro l
    induction l with
    | nil => intro acc _; exact ⟨acc, rfl⟩
    | cons v rest ih =>
      intro acc hv
      obtain ⟨fs, rfl⟩ := hv v (by simp)
      simp only [List.foldl_cons, patch]
      exact ih _ (fun x hx => hv x (by simp [hx]))
  have hps' : ∀ v ∈ ps.filterMap id, ∃ fs, v = .msg fs := by
    intro v hv
    simp only [List.mem_filterMap, id] at hv
    obtain ⟨p, hp, rfl⟩ := hv
    exact hps _ hp v rfl
  have hfold : ∀ (acc : List (Nat × Val)),
      ((ps.filterMap id) ++ .msg [] :: qs.filterMap id).foldl (patch d) (.msg acc) =
      ((ps.filterMap id) ++ qs.filterMap id).foldl (patch d) (.msg acc) := by
    intro acc
    simp only [List.foldl_append, List.foldl_cons]
    obtain ⟨fs, hfs⟩ := hmsg _ acc hps'
    rw [hfs, C13_identity]
  have hne' : (ps.filterMap id ++ qs.filterMap id) ≠ [] := by simpa [List.filterMap_append] using hne
  have hl1 : ((ps.filterMap id) ++ Val.msg [] :: qs.filterMap id).getLast?.isSome = true := by
    cases h : ((ps.filterMap id) ++ Val.msg [] :: qs.filterMap id).getLast? with
    | none => simp [List.getLast?_eq_none_iff] at h
    | some _ => rfl
  have hl2 : ((ps.filterMap id) ++ qs.filterMap id).getLast?.isSome = true := by
    cases h : ((ps.filterMap id) ++ qs.filterMap id).getLast? with
    | none => rw [List.getLast?_eq_none_iff] at h; exact absurd h hne'
    | some _ => rfl
  obtain ⟨l1, hl1⟩ := Option.isSome_iff_exists.mp hl1
  obtain ⟨l2, hl2⟩ := Option.isSome_iff_exists.mp hl2
  cases mode <;>
    simp [load, loadWith, List.filterMap_append, hl1, hl2, hfold]

/-- **C13_preview_is_single_patch**: what a loader obtains from the main file and ONE overlay's patch file is the
main message patched by that overlay alone — the other overlays of a scattered sheet do not enter (this is what
the DryRun 'patch' preview of that overlay must show; `e2e.C13.dryrun` compares them) -/
theorem C13_preview_is_single_patch (d : List FieldDesc) (main p : Val) :
    load d .merge .all main [some p] = patch d main p := by
  simp [load, loadWith]

example : load [] .merge .all (.msg [(1, .int 1)]) [some (.msg []), none] = .msg [(1, .int 1)] := by
  simp [load, loadWith, patch, patchFields]

end TableauVerif.Props.C13
