/-
C03 — Malformed cells are rejected, never silently coerced; canonical literals are accepted exactly.
Property theorems for the integer families and bool.
-/
import TableauVerif.Model.Literal
import TableauVerif.Spec.C03
import TableauVerif.Lemmas.Literal
namespace TableauVerif.Props.C03
open TableauVerif TableauVerif.Str TableauVerif.Model.Literal TableauVerif.Spec.C03
open TableauVerif.Lemmas.Literal TableauVerif.Lemmas.Decimal

theorem parse_decimalInt_unfold (k : Kind) (n : Int) :
    parse k (decimalInt n) =
      (match k with
        | .int32 => parseVia64Float (decimalInt n) minInt32 maxInt32
        | .uint32 => parseVia64Float (decimalInt n) 0 maxUint32
        | .int64 => match parseInt64 (decimalInt n) with | some n => .ok n | none => .err 2012
        | .uint64 => match parseUint64 (decimalInt n) with | some n => .ok n | none => .err 2012
        | .bool => match parseBoolLit (purifyInteger (decimalInt n)) with
            | some b => .ok (if b then 1 else 0)
            | none => .err 2013) := by
  unfold parse
  have hne := decimalInt_ne_nil n
  simp only [trimSpace_decimalInt]
  have hemp : (decimalInt n).isEmpty = false := by
    cases h : decimalInt n with
    | nil => exact absurd h hne
    | cons c cs => rfl
  simp only [hemp, Bool.false_eq_true, if_false]
  cases k <;> rfl

/-- **C03_int64_exact**: every int64 (MIN … MAX) written canonically is stored as exactly itself. -/
theorem C03_int64_exact (n : Int) (h : inRange .int64 n = true) : parse .int64 (decimalInt n) = .ok n := by
  rw [parse_decimalInt_unfold]
  simp [inRange] at h
  unfold decimalInt
  by_cases hn : n < 0
  · simp only [hn, if_true]
    have : -(n.natAbs : Int) ≥ minInt64 := by omega
    rw [parseInt64_neg _ this]
    simp; omega
  · simp only [hn, if_false]
    have : (n.natAbs : Int) ≤ maxInt64 := by omega
    rw [parseInt64_nonneg _ this]
    simp; omega

/-- **C03_int64_overflow**: every integer outside the int64 range is rejected (MIN−1, MAX+1 and beyond). -/
theorem C03_int64_overflow (n : Int) (h : inRange .int64 n = false) : parse .int64 (decimalInt n) = .err 2012 := by
  rw [parse_decimalInt_unfold]
  simp [inRange] at h
  unfold decimalInt
  by_cases hn : n < 0
  · simp only [hn, if_true]
    have : ¬ (-(n.natAbs : Int) ≥ minInt64) := by
      unfold minInt64 maxInt64 at *; omega
    simp [parseInt64, parseNat_decimal, this]
  · simp only [hn, if_false]
    obtain ⟨c, rest, hd, hc⟩ := decimal_head n.natAbs
    have hp := parseNat_decimal n.natAbs
    have h43 : c ≠ 43 := by intro h'; subst h'; simp [isDigit] at hc
    have h45 : c ≠ 45 := by intro h'; subst h'; simp [isDigit] at hc
    have : ¬ ((n.natAbs : Int) ≤ maxInt64) := by
      unfold minInt64 maxInt64 at *; omega
    rw [hd] at hp ⊢
    simp [parseInt64, h43, h45, hp, this]

/-- **C03_uint64_exact** -/
theorem C03_uint64_exact (n : Int) (h : inRange .uint64 n = true) : parse .uint64 (decimalInt n) = .ok n := by
  rw [parse_decimalInt_unfold]
  simp [inRange] at h
  unfold decimalInt
  have hn : ¬ n < 0 := by omega
  simp only [hn, if_false]
  have : (n.natAbs : Int) ≤ maxUint64 := by omega
  rw [parseUint64_dec _ this]
  simp; omega

/-- **C03_uint64_overflow**: negative numbers and numbers above MaxUint64 are rejected. -/
theorem C03_uint64_overflow (n : Int) (h : inRange .uint64 n = false) : parse .uint64 (decimalInt n) = .err 2012 := by
  rw [parse_decimalInt_unfold]
  simp [inRange] at h
  unfold decimalInt
  by_cases hn : n < 0
  · simp only [hn, if_true]
    simp [parseUint64, parseNat, parseNatAux, isDigit]
  · simp only [hn, if_false]
    have : ¬ ((n.natAbs : Int) ≤ maxUint64) := by
      unfold maxUint64 at *; omega
    simp [parseUint64, parseNat_decimal, this]

theorem via64_nonneg (m : Nat) (lo hi : Int) (hhi : 0 ≤ hi) :
    parseVia64Float (decimal m) lo hi = if (m : Int) > hi then .err 2000 else .ok m := by
  unfold parseVia64Float
  rw [parseFloatLit_digits]
  simp [magGt, magTrunc]
  by_cases h : hi.toNat < m
  · have : (m : Int) > hi := by omega
    simp [h, this]
  · have : ¬ (m : Int) > hi := by omega
    simp [h, this]

theorem via64_neg (m : Nat) (lo hi : Int) (hlo : lo ≤ 0) :
    parseVia64Float (45 :: decimal m) lo hi =
      if lo = 0 then (if m = 0 then .ok 0 else .err 2000)
      else if -(m : Int) < lo then .err 2000 else .ok (-(m : Int)) := by
  unfold parseVia64Float
  rw [parseFloatLit_neg_digits]
  simp [magGt, magTrunc]
  by_cases h0 : lo = 0
  · simp [h0]
  · simp [h0]
    by_cases h : (-lo).toNat < m
    · have : -(m : Int) < lo := by omega
      simp [h, this]
    · have : ¬ -(m : Int) < lo := by omega
      simp [h, this]

/-- **C03_int32_exact** (through the ParseFloat path): MIN … MAX stored exactly -/
theorem C03_int32_exact (n : Int) (h : inRange .int32 n = true) : parse .int32 (decimalInt n) = .ok n := by
  rw [parse_decimalInt_unfold]
  simp [inRange] at h
  unfold decimalInt
  by_cases hn : n < 0
  · simp only [hn, if_true]
    rw [via64_neg _ _ _ (by decide)]
    have h1 : ¬ minInt32 = 0 := by decide
    have h2 : ¬ -(n.natAbs : Int) < minInt32 := by omega
    simp [h1, h2]; omega
  · simp only [hn, if_false]
    rw [via64_nonneg _ _ _ (by decide)]
    have : ¬ (n.natAbs : Int) > maxInt32 := by omega
    simp [this]; omega

/-- **C03_int32_overflow**: MIN−1, MAX+1 and everything beyond is rejected with E2000 -/
theorem C03_int32_overflow (n : Int) (h : inRange .int32 n = false) : parse .int32 (decimalInt n) = .err 2000 := by
  rw [parse_decimalInt_unfold]
  simp [inRange] at h
  unfold decimalInt
  by_cases hn : n < 0
  · simp only [hn, if_true]
    rw [via64_neg _ _ _ (by decide)]
    have h1 : ¬ minInt32 = 0 := by decide
    have h2 : -(n.natAbs : Int) < minInt32 := by unfold minInt32 maxInt32 at *; omega
    simp [h1, h2]
  · simp only [hn, if_false]
    rw [via64_nonneg _ _ _ (by decide)]
    have : (n.natAbs : Int) > maxInt32 := by unfold minInt32 maxInt32 at *; omega
    simp [this]

/-- **C03_uint32_exact** -/
theorem C03_uint32_exact (n : Int) (h : inRange .uint32 n = true) : parse .uint32 (decimalInt n) = .ok n := by
  rw [parse_decimalInt_unfold]
  simp [inRange] at h
  unfold decimalInt
  have hn : ¬ n < 0 := by omega
  simp only [hn, if_false]
  rw [via64_nonneg _ _ _ (by decide)]
  have : ¬ (n.natAbs : Int) > maxUint32 := by omega
  simp [this]; omega

/-- **C03_uint32_overflow**: negative numbers and numbers above MaxUint32 are rejected with E2000 -/
theorem C03_uint32_overflow (n : Int) (h : inRange .uint32 n = false) : parse .uint32 (decimalInt n) = .err 2000 := by
  rw [parse_decimalInt_unfold]
  simp [inRange] at h
  unfold decimalInt
  by_cases hn : n < 0
  · simp only [hn, if_true]
    rw [via64_neg _ _ _ (by decide)]
    have : ¬ n.natAbs = 0 := by omega
    simp [this]
  · simp only [hn, if_false]
    rw [via64_nonneg _ _ _ (by decide)]
    have : (n.natAbs : Int) > maxUint32 := by unfold maxUint32 at *; omega
    simp [this]

/-- **C03_bool_accept**: each of the twelve `ParseBool` spellings is accepted with its denotation
(the whole table, by evaluation) -/
theorem C03_bool_accept : ∀ p ∈ boolSpellings,
    parse .bool (Str.ofString p.1) = .ok (if p.2 then 1 else 0) := by
  decide

/-- **C03_nan_inf_rejected**: `nan`, `inf`, `infinity` in any letter case, with or without sign, are
rejected by the 32-bit integer kinds (the spellings below, by evaluation; the 64-bit kinds reject
every text without a digit by `C03_nodigit_64`). -/
theorem C03_nan_inf_rejected : ∀ s ∈ ["nan", "NaN", "NAN", "+nan", "-nan", "inf", "Inf", "+Inf", "-inf", "INF", "infinity", "Infinity", "-INFINITY", "+infinity"],
    (parse .int32 (Str.ofString s)).isErr = true ∧ (parse .uint32 (Str.ofString s)).isErr = true := by
  decide

theorem parseNatAux_none (s : Str) : ∀ acc, (∃ c ∈ s, isDigit c = false) → parseNatAux s acc = none := by
  induction s with
  | nil => intro acc h; obtain ⟨c, hc, _⟩ := h; simp at hc
  | cons x xs ih =>
    intro acc h
    by_cases hx : isDigit x = true
    · obtain ⟨c, hc, hcd⟩ := h
      have : c ∈ xs := by
        cases hc with
        | head => rw [hx] at hcd; cases hcd
        | tail _ h' => exact h'
      simp [parseNatAux, hx, ih _ ⟨c, this, hcd⟩]
    · simp [parseNatAux, hx]

theorem parseNat_none (s : Str) (h : ∃ c ∈ s, isDigit c = false) : parseNat s = none := by
  unfold parseNat
  cases s with
  | nil => rfl
  | cons x xs => exact parseNatAux_none _ _ h

/-- **C03_garbage_uint64**: a uint64 cell containing any rune that is not a decimal digit (after
trimming blanks) — letters, signs, dots, inner blanks, `nan`, `inf`, … — is rejected. -/
theorem C03_garbage_uint64 (raw : Str) (h : ∃ c ∈ trimSpace raw, isDigit c = false) :
    parse .uint64 raw = .err 2012 := by
  unfold parse
  obtain ⟨c, hc, hcd⟩ := h
  have hne : (trimSpace raw).isEmpty = false := by
    cases ht : trimSpace raw with
    | nil => rw [ht] at hc; simp at hc
    | cons _ _ => rfl
  simp only [hne, Bool.false_eq_true, if_false]
  simp [parseUint64, parseNat_none _ ⟨c, hc, hcd⟩]

/-- **C03_garbage_int64**: an int64 cell whose text after an optional first rune contains a non-digit
(trailing garbage, inner blanks, a second sign, a dot, an exponent, `nan`, `inf`, …) is rejected. -/
theorem C03_garbage_int64 (raw : Str) (x : Nat) (rest : Str) (ht : trimSpace raw = x :: rest)
    (h : ∃ c ∈ rest, isDigit c = false) : parse .int64 raw = .err 2012 := by
  unfold parse
  simp only [ht, List.isEmpty_cons, Bool.false_eq_true, if_false]
  have hrest := parseNat_none rest h
  have hall : parseNat (x :: rest) = none := by
    obtain ⟨c, hc, hcd⟩ := h
    exact parseNat_none _ ⟨c, by simp [hc], hcd⟩
  by_cases h43 : x = 43
  · simp [parseInt64, h43, hrest]
  · by_cases h45 : x = 45
    · simp [parseInt64, h45, hrest]
    · simp [parseInt64, h43, h45, hall]

/-- **C03_bool_reject** (whole-cell form): a bool cell that is none of the twelve spellings and not
of the form `sign? digits '.' 0+` is rejected. -/
theorem C03_bool_reject (raw : Str) (hne : (trimSpace raw).isEmpty = false)
    (hpur : purifyInteger (trimSpace raw) = trimSpace raw) (hb : parseBoolLit (trimSpace raw) = none) :
    parse .bool raw = .err 2013 := by
  unfold parse
  simp only [hne, Bool.false_eq_true, if_false, hpur, hb]

/-- an empty (or blank) cell is absent, never an error -/
theorem C03_empty_absent (k : Kind) (raw : Str) (h : (trimSpace raw).isEmpty = true) : parse k raw = .absent := by
  have h0 : trimSpace ([] : Str) = [] := rfl
  unfold parse
  simp only [h, if_true, h0, List.isEmpty_nil]

-- non-vacuity of the range hypotheses: both extremes of every kind satisfy them
example : inRange .int64 minInt64 = true ∧ inRange .int64 maxInt64 = true ∧ inRange .int64 (maxInt64 + 1) = false ∧
    inRange .uint64 maxUint64 = true ∧ inRange .int32 minInt32 = true ∧ inRange .uint32 (maxUint32 + 1) = false := by decide

end TableauVerif.Props.C03
