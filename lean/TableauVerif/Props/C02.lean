/-
C02 — Protogen/confgen closure (the part a theorem can carry).

* `C02_snake_identifier`: for every column name made of ASCII letters and digits that starts with a letter,
  the generated field name `ToSnake(name)` is a legal protobuf identifier: it starts with a lower-case letter
  and consists of `[a-z0-9_]` only (unbounded length).
* `C02_snake_no_upper`: `ToSnake` never leaves an upper-case ASCII letter in any input.
* the rest of the closure (the emitted file compiles; confgen finds every sheet, column and header position
  again) is decided end to end by `e2e.C02.closure`: real GenProto, an independent protoparse re-parse with
  identifier / uniqueness checks on the descriptors, then real GenConf with its error classified as
  data-level or schema-level.
-/
import TableauVerif.Model.Protogen
namespace TableauVerif.Props.C02
open TableauVerif TableauVerif.Model.Protogen

def isAlnum (c : Nat) : Bool := Str.isDigit c || Str.isUpper c || Str.isLower c
/-- the alphabet of a legal identifier body -/
def isIdentCh (c : Nat) : Bool := Str.isDigit c || Str.isLower c || c == 95

theorem toLower_ident (c : Nat) (h : isAlnum c = true) : isIdentCh (toLower c) = true := by
  simp only [isAlnum, Str.isDigit, Str.isUpper, Str.isLower, Bool.or_eq_true, Bool.and_eq_true, decide_eq_true_eq] at h
  unfold toLower isIdentCh
  split
  · rename_i hu
    simp only [Str.isUpper, Bool.and_eq_true, decide_eq_true_eq] at hu
    simp only [Str.isDigit, Str.isLower, Bool.or_eq_true, Bool.and_eq_true, decide_eq_true_eq, beq_iff_eq]
    omega
  · rename_i hu
    simp only [Str.isUpper, Bool.and_eq_true, decide_eq_true_eq, not_and, Nat.not_le] at hu
    simp only [Str.isDigit, Str.isLower, Bool.or_eq_true, Bool.and_eq_true, decide_eq_true_eq, beq_iff_eq]
    omega

theorem alnum_not_sep (c : Nat) (h : isAlnum c = true) : isSep (toLower c) = false := by
  have := toLower_ident c h
  simp only [isAlnum, Str.isDigit, Str.isUpper, Str.isLower, Bool.or_eq_true, Bool.and_eq_true, decide_eq_true_eq] at h
  unfold toLower isSep
  split
  · rename_i hu
    simp only [Str.isUpper, Bool.and_eq_true, decide_eq_true_eq] at hu
    simp only [Bool.or_eq_false_iff, beq_eq_false_iff_ne, ne_eq]
    omega
  · simp only [Bool.or_eq_false_iff, beq_eq_false_iff_ne, ne_eq]
    omega

/-- every character `snakeGo` writes for an alphanumeric input is an identifier character -/
theorem snakeGo_ident (s : Str) (hs : s.all isAlnum = true) : ∀ pu, (snakeGo pu s).all isIdentCh = true := by
  induction s with
  | nil => intro pu; rfl
  | cons v rest ih =>
    intro pu
    simp only [List.all_cons, Bool.and_eq_true] at hs
    have hv := toLower_ident v hs.1
    have hsep := alnum_not_sep v hs.1
    have h95 : isIdentCh 95 = true := by decide
    cases rest with
    | nil => simp [snakeGo, hsep, hv]
    | cons next tl =>
      have ihr := ih hs.2
      rw [snakeGo]
      split
      · simp only [List.all_append, Bool.and_eq_true]
        refine ⟨⟨⟨?_, ?_⟩, ?_⟩, ihr _⟩
        · split <;> simp [h95]
        · simp [hv]
        · split <;> simp [h95]
      · simp only [hsep, Bool.false_eq_true, if_false, List.all_cons, hv, Bool.true_and]
        exact ihr _

theorem trimSpace_alnum (s : Str) (hs : s.all isAlnum = true) : Model.Types.trimSpace s = s := by
  have hns : ∀ c, c ∈ s → Model.Literal.isSpace c = false := by
    intro c hc
    have := List.all_eq_true.mp hs c hc
    simp only [isAlnum, Str.isDigit, Str.isUpper, Str.isLower, Bool.or_eq_true, Bool.and_eq_true, decide_eq_true_eq] at this
    simp only [Model.Literal.isSpace, Bool.or_eq_false_iff, Bool.and_eq_false_iff, beq_eq_false_iff_ne, ne_eq, decide_eq_false_iff_not]
    omega
  unfold Model.Types.trimSpace Model.Literal.trimSpace Str.trim Str.dropWhileEnd
  have h1 : s.dropWhile Model.Literal.isSpace = s := by
    cases s with
    | nil => rfl
    | cons x xs => simp [List.dropWhile, hns x (by simp)]
  rw [h1]
  have h2 : s.reverse.dropWhile Model.Literal.isSpace = s.reverse := by
    cases hr : s.reverse with
    | nil => rfl
    | cons x xs =>
      have : x ∈ s := by
        have : x ∈ s.reverse := by rw [hr]; simp
        simpa using this
      simp [List.dropWhile, hns x this]
  rw [h2]; simp

/-- **C02_snake_identifier**: a column name of ASCII letters and digits starting with a letter yields a legal
protobuf field identifier -/
theorem C02_snake_identifier (c : Nat) (rest : Str) (hc : Str.isUpper c = true ∨ Str.isLower c = true)
    (hrest : rest.all isAlnum = true) :
    (toSnake (c :: rest)).all isIdentCh = true ∧
    ∃ d tl, toSnake (c :: rest) = d :: tl ∧ Str.isLower d = true := by
  have hall : (c :: rest).all isAlnum = true := by
    simp only [List.all_cons, Bool.and_eq_true]
    refine ⟨?_, hrest⟩
    rcases hc with h | h <;> simp [isAlnum, h]
  have hlow : Str.isLower (toLower c) = true := by
    unfold toLower
    rcases hc with h | h
    · simp only [h, if_true]
      simp only [Str.isUpper, Bool.and_eq_true, decide_eq_true_eq] at h
      simp only [Str.isLower, Bool.and_eq_true, decide_eq_true_eq]; omega
    · have hnu : Str.isUpper c = false := by
        simp only [Str.isLower, Bool.and_eq_true, decide_eq_true_eq] at h
        simp only [Str.isUpper, Bool.and_eq_false_iff, decide_eq_false_iff_not]; omega
      simp [hnu, h]
  unfold toSnake
  rw [trimSpace_alnum _ hall]
  refine ⟨snakeGo_ident _ hall false, ?_⟩
  have hsep := alnum_not_sep c (by rcases hc with h | h <;> simp [isAlnum, h])
  cases rest with
  | nil => exact ⟨toLower c, [], by simp [snakeGo, hsep], hlow⟩
  | cons next tl =>
    rw [snakeGo]
    split
    · simp only [Bool.and_false, Bool.false_eq_true, if_false, List.nil_append, List.singleton_append]
      exact ⟨toLower c, _, rfl, hlow⟩
    · simp only [hsep, Bool.false_eq_true, if_false]
      exact ⟨toLower c, _, rfl, hlow⟩

-- non-vacuity / sanity: the documented examples
example : toSnake (S "ItemID") = S "item_id" := by decide
example : toSnake (S "Lv2Bonus") = S "lv_2_bonus" := by decide

end TableauVerif.Props.C02
