/-
C14 — obligations over data REGENERATED from /repo on every run (tie 2).
If the source of `MergeHeader` or the default constants change, these stop checking.
-/
import TableauVerif.Model.Options
import TableauVerif.Generated.Consts
import TableauVerif.Generated.Resolve
namespace TableauVerif.Props.C14Pins
open TableauVerif.Model.Options TableauVerif.Generated

/-- the built-in defaults the model uses are the constants of `options/options.go` -/
theorem pin_defaults :
    Consts.optionsDefaultNameRow = defaultNameRow ∧ Consts.optionsDefaultTypeRow = defaultTypeRow ∧
    Consts.optionsDefaultNoteRow = defaultNoteRow ∧ Consts.optionsDefaultDataRow = defaultDataRow ∧
    Consts.optionsDefaultSep = defaultSep ∧ Consts.optionsDefaultSubsep = defaultSubsep := by
  decide

/-- one chain of `MergeHeader` as the model reads it: sheet, then book, then global (nil-guarded), else default -/
def expectedIntChain (field getter gfield dflt : String) : String × List (String × String) × String :=
  ("hdr." ++ field,
   [("sheetOpts.Get" ++ getter ++ "() != 0", "int(sheetOpts.Get" ++ getter ++ "())"),
    ("bookOpts.Get" ++ getter ++ "() != 0", "int(bookOpts.Get" ++ getter ++ "())"),
    ("globalOpts != nil && globalOpts." ++ gfield ++ " != 0", "int(globalOpts." ++ gfield ++ ")")],
   dflt)

def expectedStrChain (field dflt : String) : String × List (String × String) × String :=
  ("hdr." ++ field,
   [("sheetOpts.Get" ++ field ++ "() != \"\"", "sheetOpts.Get" ++ field ++ "()"),
    ("bookOpts.Get" ++ field ++ "() != \"\"", "bookOpts.Get" ++ field ++ "()"),
    ("globalOpts != nil && globalOpts." ++ field ++ " != \"\"", "globalOpts." ++ field)],
   dflt)

def expectedChains : List (String × List (String × String) × String) :=
  [ expectedIntChain "NameRow" "Namerow" "NameRow" "options.DefaultNameRow",
    expectedIntChain "TypeRow" "Typerow" "TypeRow" "options.DefaultTypeRow",
    expectedIntChain "NoteRow" "Noterow" "NoteRow" "options.DefaultNoteRow",
    expectedIntChain "DataRow" "Datarow" "DataRow" "options.DefaultDataRow",
    expectedIntChain "NameLine" "Nameline" "NameLine" "0",
    expectedIntChain "TypeLine" "Typeline" "TypeLine" "0",
    expectedStrChain "Sep" "options.DefaultSep",
    expectedStrChain "Subsep" "options.DefaultSubsep" ]

/-- the source of `MergeHeader` consists of exactly the eight sheet→book→global→default chains the
model `mergeHeader` transliterates (plus the allocation and the return statement) -/
theorem pin_mergeHeader_chains :
    Resolve.mergeHeaderChains = expectedChains ∧ Resolve.mergeHeaderOtherStmts = 2 ∧ Resolve.mergeHeaderIfStmts = 8 := by
  decide

end TableauVerif.Props.C14Pins
