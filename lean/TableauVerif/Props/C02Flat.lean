/-
C02 — closure on sheets of basic columns: whatever protogen accepts, confgen finds again.

For a sheet whose columns are all basic cells (scalar / enum / opaque type names) with non-blank names and
types: if the header parser accepts it, the worksheet message has exactly one field per column, in column
order, and field `i` records column `i`'s name cell as its option name — the key under which confgen looks the
column up again — and is called `ToSnake(name)` (`C02_flat_sheet_closure_partial`); with names of ASCII letters
and digits starting with a letter these are legal protobuf identifiers (`C02_snake_identifier`), and by the
pre-check no two columns share a name (`C07_precheck_accepts_iff_no_repeat`).
-/
import TableauVerif.Props.C15
import TableauVerif.Props.C02
namespace TableauVerif.Props.C02Flat
open TableauVerif TableauVerif.Model.Types TableauVerif.Model.Protogen TableauVerif.Props.C15

theorem parseBasicField_names (c : Ctx) (n t : Str) (f : PField) (h : parseBasicField c n t = .ok f) :
    f.optName = n ∧ f.name = toSnake (trimPrefix n [64]) := by
  unfold parseBasicField at h
  simp only [] at h
  split at h
  · simp at h
  · split at h
    · simp at h
    · simp at h
      subst h
      exact ⟨rfl, rfl⟩

theorem flat_loop (c : Ctx) (names types : List Str) (hflat : FlatUpTo names types) :
    ∀ (k cursor F : Nat) (seen : Seen) (acc fs : List PField),
      cursor + k = names.length → k + 2 ≤ F →
      sheetLoop F ⟨names, types⟩ c seen cursor acc = .ok fs →
      ∃ more, fs = acc ++ more ∧ more.length = k ∧
        ∀ j (hj : j < more.length), ∃ nm, names[cursor + j]? = some nm ∧
          (more[j]).optName = nm ∧ (more[j]).name = toSnake (trimPrefix nm [64]) := by
  intro k
  induction k with
  | zero =>
    intro cursor F seen acc fs hc h1 r1
    obtain ⟨F', rfl⟩ : ∃ n, F = n + 1 := ⟨F - 1, by omega⟩
    simp only [sheetLoop] at r1
    have : ¬ cursor < names.length := by omega
    simp only [this, if_false] at r1
    simp at r1; subst r1
    exact ⟨[], by simp, rfl, fun j hj => by simp at hj⟩
  | succ k ih =>
    intro cursor F seen acc fs hc h1 r1
    obtain ⟨G, rfl⟩ : ∃ n, F = n + 2 := ⟨F - 2, by omega⟩
    have hlt : cursor < names.length := by omega
    obtain ⟨nm, ty, hn, ht, hne, hte, hb⟩ := hflat.2 cursor hlt
    have p1 := parseField_basic G ⟨names, types⟩ c seen cursor nm ty hn ht hne hte hb
    rw [sheetLoop] at r1
    simp only [hlt, if_true] at r1
    rw [p1] at r1
    cases hcc : checkConflict seen nm cursor with
    | none => rw [hcc] at r1; simp [atCur] at r1
    | some seen' =>
      rw [hcc] at r1
      cases hpb : parseBasicField c nm ty with
      | error e =>
        rw [hpb] at r1
        rcases e with ⟨t, _ | cu⟩ | _ | _ <;> simp [atCur] at r1
      | ok f =>
        rw [hpb] at r1
        simp only [atCur] at r1
        obtain ⟨more, hm, hlen, hall⟩ := ih (cursor + 1) (G + 1) seen' (acc ++ [f]) fs (by omega) (by omega) r1
        refine ⟨f :: more, by simp [hm], by simp [hlen], fun j hj => ?_⟩
        cases j with
        | zero =>
          have := parseBasicField_names c nm ty f hpb
          exact ⟨nm, by simpa using hn, by simpa using this.1, by simpa using this.2⟩
        | succ j =>
          obtain ⟨nm', h1', h2', h3'⟩ := hall j (by simpa using hj)
          refine ⟨nm', ?_, by simpa using h2', by simpa using h3'⟩
          have : cursor + (j + 1) = cursor + 1 + j := by omega
          rw [this]; exact h1'

/-- **C02_flat_sheet_closure_partial**: an accepted sheet of basic columns yields one field per column, in
order, recording the column's name cell (what confgen searches for) and named `ToSnake` of it. -/
theorem C02_flat_sheet_closure_partial (c : Ctx) (names types : List Str) (hflat : FlatUpTo names types)
    (fs : List PField) (h : parseSheet c ⟨names, types⟩ = .ok fs) :
    fs.length = names.length ∧
    ∀ i (hi : i < fs.length), ∃ nm, names[i]? = some nm ∧ (fs[i]).optName = nm ∧ (fs[i]).name = toSnake (trimPrefix nm [64]) := by
  unfold parseSheet defaultFuel at h
  split at h
  case h_2 => simp at h
  obtain ⟨more, hm, hlen, hall⟩ := flat_loop c names types hflat names.length 0 _ [] [] fs (by simp) (by simp; omega) h
  simp only [List.nil_append] at hm
  subst hm
  exact ⟨hlen, fun i hi => by simpa using hall i hi⟩

end TableauVerif.Props.C02Flat
