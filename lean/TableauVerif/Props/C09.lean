/-
C09 — Document workbooks (YAML/XML) convert faithfully: the XML gathering step.

An XML data document may repeat an element anywhere among its siblings. The importer folds the occurrences
of one name into one node of the tree that confgen parses. Proved for the model of that fold
(`Model.XmlDoc.gather`, tied to `parseXMLNode` by the stream `corr.importer.xmlToNode`):

* `C09_gather_collects`: the group of a name holds exactly the occurrences of that name, in document order,
  after any prefix of already gathered items — for every list of children, however the names interleave;
* `C09_interleaving_invariant`: two sibling sequences with the same occurrences per name (e.g. the same
  elements interleaved differently) give the same group for every name;
* `C09_nothing_invented`: a name that does not occur has no group.

The rest of C09 (schema documents, YAML, the document parser proper, error positions) is decided by the
end-to-end stream `e2e.C09.documents` with its independent walker (partial).
-/
import TableauVerif.Model.XmlDoc
namespace TableauVerif.Props.C09
open TableauVerif TableauVerif.Model.XmlDoc

variable {α : Type}

/-- the items gathered under a name so far -/
def groupOf (acc : List (Str × List α)) (name : Str) : List α :=
  match acc.find? (fun p => p.1 == name) with
  | some (_, xs) => xs
  | none => []

/-- the occurrences of a name in a sibling sequence, in document order -/
def occurrences (items : List (Str × α)) (name : Str) : List α :=
  items.filterMap fun p => if p.1 == name then some p.2 else none

theorem groupOf_addItem (acc : List (Str × List α)) (n m : Str) (x : α) :
    groupOf (addItem acc n x) m = if n == m then groupOf acc m ++ [x] else groupOf acc m := by
  induction acc with
  | nil =>
    by_cases h : n == m <;> simp [addItem, groupOf, List.find?, h]
  | cons p rest ih =>
    obtain ⟨k, xs⟩ := p
    unfold addItem
    by_cases hk : k == n
    · simp only [hk, if_true]
      have hkn : k = n := by simpa using hk
      subst hkn
      by_cases hm : k == m
      · simp [groupOf, List.find?, hm]
      · simp [groupOf, List.find?, hm]
    · simp only [hk, Bool.false_eq_true, if_false]
      by_cases hm : k == m
      · have hnm : (n == m) = false := by
          have hkm : k = m := by simpa using hm
          subst hkm
          cases hq : (n == k) with
          | false => rfl
          | true =>
            have : n = k := by simpa using hq
            subst this
            simp at hk
        simp [groupOf, List.find?, hm, hnm]
      · have := ih
        simp only [groupOf, List.find?, hm] at this ⊢
        exact this

theorem groupOf_foldl (items : List (Str × α)) (acc : List (Str × List α)) (m : Str) :
    groupOf (items.foldl (fun a p => addItem a p.1 p.2) acc) m = groupOf acc m ++ occurrences items m := by
  induction items generalizing acc with
  | nil => simp [occurrences]
  | cons p rest ih =>
    simp only [List.foldl_cons]
    rw [ih, groupOf_addItem]
    by_cases h : p.1 == m
    · have hm : p.1 = m := by simpa using h
      simp [occurrences, List.filterMap_cons, hm]
    · have hm : ¬ p.1 = m := by simpa using h
      simp [occurrences, List.filterMap_cons, hm]

/-- **C09_gather_collects** -/
theorem C09_gather_collects (items : List (Str × α)) (m : Str) : groupOf (gather items) m = occurrences items m := by
  unfold gather
  rw [groupOf_foldl]
  simp [groupOf]

/-- **C09_interleaving_invariant** -/
theorem C09_interleaving_invariant (a b : List (Str × α)) (h : ∀ m, occurrences a m = occurrences b m) (m : Str) :
    groupOf (gather a) m = groupOf (gather b) m := by
  rw [C09_gather_collects, C09_gather_collects, h]

/-- **C09_nothing_invented** -/
theorem C09_nothing_invented (items : List (Str × α)) (m : Str) (h : ∀ p ∈ items, (p.1 == m) = false) :
    groupOf (gather items) m = [] := by
  rw [C09_gather_collects]
  unfold occurrences
  induction items with
  | nil => rfl
  | cons p rest ih =>
    have hp := h p (by simp)
    simp only [List.filterMap_cons, hp, Bool.false_eq_true, if_false]
    exact ih (fun q hq => h q (by simp [hq]))

-- non-vacuity: interleaved occurrences A B A B vs adjacent A A B B
example : groupOf (gather [(Str.ofString "A", 1), (Str.ofString "B", 2), (Str.ofString "A", 3), (Str.ofString "B", 4)]) (Str.ofString "A")
    = groupOf (gather [(Str.ofString "A", 1), (Str.ofString "A", 3), (Str.ofString "B", 2), (Str.ofString "B", 4)]) (Str.ofString "A") := by
  decide

end TableauVerif.Props.C09
