/-
C07, protogen half: "When protogen rejects a header cell, the error names the book, sheet and the name/type
cell position."  The position is the header cursor that protogen's table parser returns next to the error
(`wrapDebugErr` turns it into NameCellPos / TypeCellPos); `Model.Protogen` carries it inside `PErr.err`, and
`corr.protogen.parseHeader` / `spec.C07.headerPos` compare it with the implementation's.

Proved here, for every header of any width and nesting:
* every rejection of the model names a column (`C07_header_rejection_names_a_column`);
* the duplicate-name pre-check reports exactly the first name cell that repeats an earlier one, and accepts
  exactly the headers without such a cell (`C07_duplicate_name_reported_at_first_repeat`,
  `C07_precheck_accepts_iff_no_repeat`).
-/
import TableauVerif.Model.Protogen
namespace TableauVerif.Props.C07Header
open TableauVerif TableauVerif.Model.Protogen

/-- the result is not an error without a column -/
def Named {α : Type} (r : PRes α) : Prop := ∀ t, r ≠ .error (.err t none)

theorem atCur_named {α : Type} (c : Nat) (r : PRes α) : Named (atCur c r) := by
  intro t
  unfold atCur
  split
  · simp
  · rename_i h
    intro heq
    exact h t heq

theorem parseField_named (fuel : Nat) (h : Header) (c : Ctx) (vt : VT) (seen : Seen) (cursor : Nat) (pfx : Str) :
    Named (parseField fuel h c vt seen cursor pfx) := by
  cases fuel with
  | zero => intro t; simp [parseField]
  | succ n =>
    rw [parseField]
    generalize h.validName cursor = vn
    obtain ⟨cur, nameCell⟩ := vn
    simp only []
    split
    · intro t; simp
    · exact atCur_named _ _

theorem sheetLoop_named (fuel : Nat) (h : Header) (c : Ctx) (seen : Seen) (cursor : Nat) (acc : List PField) :
    Named (sheetLoop fuel h c seen cursor acc) := by
  induction fuel generalizing seen cursor acc with
  | zero => intro t; simp [sheetLoop]
  | succ n ih =>
    rw [sheetLoop]
    split
    · have hp := parseField_named n h c [] seen cursor []
      split
      · rename_i e heq
        intro t ht
        rw [heq] at hp
        exact hp t (by simpa using ht)
      · exact ih _ _ _
      · exact ih _ _ _
    · intro t; simp

/-- **C07_header_rejection_names_a_column**: whenever the header parser rejects a header, the rejection
carries a column (never an error without a position). -/
theorem C07_header_rejection_names_a_column (c : Ctx) (h : Header) (t : String) :
    parseSheet c h ≠ .error (.err t none) := by
  unfold parseSheet
  split
  · exact sheetLoop_named _ _ _ _ _ _ t
  · simp

/-- no non-blank name of `ns` repeats a name of `pre` or an earlier name of `ns` -/
def NoRepeat : List Str → List Str → Prop
  | _, [] => True
  | pre, n :: ns => (n ≠ [] → n ∉ pre) ∧ NoRepeat (pre ++ [n]) ns

/-- the table of `checkNameConflicts` after the cells `pre`: the non-blank names of `pre`, each with a column
inside `pre` -/
def SeenOK (seen : Seen) (pre : List Str) : Prop :=
  (∀ n c, (n, c) ∈ seen → n ∈ pre ∧ c < pre.length) ∧ (∀ n, n ∈ pre → n ≠ [] → ∃ c, (n, c) ∈ seen)

theorem precheck_spec (ns pre : List Str) (seen : Seen) (hs : SeenOK seen pre) :
    match precheck ns pre.length seen with
    | none => NoRepeat pre ns
    | some i => ∃ a m b, ns = a ++ m :: b ∧ i = pre.length + a.length ∧ m ≠ [] ∧ m ∈ pre ++ a ∧ NoRepeat pre a := by
  induction ns generalizing pre seen with
  | nil => simp [precheck, NoRepeat]
  | cons n ns ih =>
    rw [precheck]
    by_cases hn : n = []
    · subst hn
      have hs' : SeenOK seen (pre ++ [[]]) := by
        refine ⟨fun x c hx => ?_, fun x hx hne => ?_⟩
        · have := hs.1 x c hx
          simp; exact ⟨Or.inl this.1, by omega⟩
        · simp at hx
          rcases hx with hx | hx
          · exact hs.2 x hx hne
          · exact absurd hx hne
      have := ih (pre ++ [[]]) seen hs'
      simp only [List.length_append, List.length_cons, List.length_nil, Nat.zero_add] at this
      simp only [List.isEmpty_nil, if_true]
      split
      · rename_i heq
        rw [heq] at this
        exact ⟨by simp, this⟩
      · rename_i i heq
        rw [heq] at this
        obtain ⟨a, m, b, h1, h2, h3, h4, h5⟩ := this
        refine ⟨[] :: a, m, b, by simp [h1], by simp [h2]; omega, h3, ?_, ?_⟩
        · simp at h4 ⊢
          rcases h4 with h4 | h4 | h4
          · exact Or.inl h4
          · exact absurd h4 h3
          · exact Or.inr (Or.inr h4)
        · exact ⟨by simp, h5⟩
    · have hne : n.isEmpty = false := by cases n <;> simp_all
      simp only [hne, Bool.false_eq_true, if_false]
      cases hfind : seen.find? (fun e => e.1 == n) with
      | none =>
        -- the name is new
        have hcc : checkConflict seen n pre.length = some ((n, pre.length) :: seen) := by
          simp [checkConflict, hfind]
        rw [hcc]
        simp only []
        have hnotin : n ∉ pre := by
          intro hin
          obtain ⟨c, hc⟩ := hs.2 n hin hn
          have := List.find?_eq_none.mp hfind (n, c) hc
          simp at this
        have hs' : SeenOK ((n, pre.length) :: seen) (pre ++ [n]) := by
          refine ⟨fun x c hx => ?_, fun x hx hne' => ?_⟩
          · simp at hx
            rcases hx with ⟨rfl, rfl⟩ | hx
            · simp
            · have := hs.1 x c hx
              simp; exact ⟨Or.inl this.1, by omega⟩
          · simp at hx
            rcases hx with hx | hx
            · obtain ⟨c, hc⟩ := hs.2 x hx hne'
              exact ⟨c, by simp [hc]⟩
            · exact ⟨pre.length, by simp [hx]⟩
        have := ih (pre ++ [n]) ((n, pre.length) :: seen) hs'
        simp only [List.length_append, List.length_cons, List.length_nil, Nat.zero_add] at this
        split
        · rename_i heq
          rw [heq] at this
          exact ⟨fun _ => hnotin, this⟩
        · rename_i i heq
          rw [heq] at this
          obtain ⟨a, m, b, h1, h2, h3, h4, h5⟩ := this
          refine ⟨n :: a, m, b, by simp [h1], by simp [h2]; omega, h3, ?_, ?_⟩
          · simpa using h4
          · exact ⟨fun _ => hnotin, h5⟩
      | some p =>
        -- the name was seen at an earlier column
        obtain ⟨x, c⟩ := p
        have hmem := List.mem_of_find?_eq_some hfind
        have hx : x = n := by
          have := List.find?_some hfind
          simpa using this
        subst hx
        have hpre := hs.1 x c hmem
        have hc : c ≠ pre.length := by omega
        have hcc : checkConflict seen x pre.length = none := by
          simp [checkConflict, hfind, hc]
        rw [hcc]
        simp only []
        exact ⟨[], x, ns, by simp, by simp, hn, by simp [hpre.1], trivial⟩

/-- **C07_duplicate_name_reported_at_first_repeat**: when the duplicate-name pre-check rejects a name row, the
reported column `i` holds a non-blank name that already occurs to its left, and no column left of `i` does. -/
theorem C07_duplicate_name_reported_at_first_repeat (names : List Str) (i : Nat) (h : precheck names 0 [] = some i) :
    ∃ a m b, names = a ++ m :: b ∧ i = a.length ∧ m ≠ [] ∧ m ∈ a ∧ NoRepeat [] a := by
  have := precheck_spec names [] [] ⟨by simp, by simp⟩
  simp only [List.length_nil] at this
  rw [h] at this
  simpa using this

/-- **C07_precheck_accepts_iff_no_repeat**: the pre-check accepts exactly the name rows in which no non-blank
name repeats an earlier one. -/
theorem C07_precheck_accepts_iff_no_repeat (names : List Str) : precheck names 0 [] = none ↔ NoRepeat [] names := by
  have := precheck_spec names [] [] ⟨by simp, by simp⟩
  simp only [List.length_nil] at this
  constructor
  · intro h; rw [h] at this; exact this
  · intro hnr
    cases hp : precheck names 0 [] with
    | none => rfl
    | some i =>
      rw [hp] at this
      obtain ⟨a, m, b, h1, _, h3, h4, _⟩ := this
      exfalso
      subst h1
      -- m repeats a name of `a`, against NoRepeat
      have key : ∀ (pre a : List Str), NoRepeat pre (a ++ m :: b) → m ∈ pre ++ a → False := by
        intro pre a
        induction a generalizing pre with
        | nil => intro h hm; simp at hm; exact h.1 h3 hm
        | cons x xs ih => intro h hm; exact ih (pre ++ [x]) h.2 (by simpa using hm)
      exact key [] a hnr (by simpa using h4)

-- the premises are satisfiable (tests, labelled as tests): a repeat at column 2; a clean row
example : precheck [[73, 68], [], [73, 68], [78]] 0 [] = some 2 := by decide
example : precheck [[73, 68], [], [78]] 0 [] = none := by decide

end TableauVerif.Props.C07Header
