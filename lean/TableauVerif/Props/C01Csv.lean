/-
C01 / C08 — the CSV reader at text level (`Model.CSV`, tied by `corr.importer.csvText`): whatever quoting policy the
writer of a CSV file follows (as long as it quotes what must be quoted), the reader hands on the written cells.

* `C01_csv_text_roundtrip`: `readRows (writeRows q rows) = some (expected q rows)` for all grids whose rows have at
  least one cell and whose cells hold no CR — every cell verbatim: blanks at either end, quotes, commas and line
  breaks inside cells included; a record that the policy writes as an empty line comes back as a row without cells
  (fix D46), unless nothing follows it.
-/
import TableauVerif.Model.CSV
import TableauVerif.Model.Importer
import TableauVerif.Props.C01Grid
namespace TableauVerif.Props.C01Csv
open TableauVerif TableauVerif.Model.CSV

/-- the text that may follow a field: nothing, a comma or a line end -/
def delim (rest : Str) : Prop := rest = [] ∨ ∃ t, rest = 44 :: t ∨ rest = 10 :: t

theorem takeUnquoted_char (acc : Str) (c : Nat) (rest : Str) (h : c ≠ 44 ∧ c ≠ 10 ∧ c ≠ 34) :
    takeUnquoted acc (c :: rest) = takeUnquoted (c :: acc) rest := by
  rw [takeUnquoted.eq_def]
  simp [h.1, h.2.1, h.2.2]

theorem takeUnquoted_delim (acc : Str) (rest : Str) (hr : delim rest) :
    takeUnquoted acc rest = some (acc.reverse, rest) := by
  rcases hr with rfl | ⟨t, rfl | rfl⟩ <;> rw [takeUnquoted.eq_def] <;> simp

theorem takeUnquoted_plain (f : Str) (hf : ∀ c ∈ f, c ≠ 44 ∧ c ≠ 10 ∧ c ≠ 34) (acc rest : Str) (hr : delim rest) :
    takeUnquoted acc (f ++ rest) = some (acc.reverse ++ f, rest) := by
  induction f generalizing acc with
  | nil => simpa using takeUnquoted_delim acc rest hr
  | cons c f ih =>
    have hc := hf c (by simp)
    have := ih (fun d hd => hf d (by simp [hd])) (c :: acc)
    rw [List.cons_append, takeUnquoted_char acc c _ hc, this]; simp

theorem takeQuoted_qq (acc rest : Str) : takeQuoted acc (34 :: 34 :: rest) = takeQuoted (34 :: acc) rest := by
  rw [takeQuoted.eq_def]; simp

theorem takeQuoted_close (acc rest : Str) (hr : delim rest) : takeQuoted acc (34 :: rest) = some (acc.reverse, rest) := by
  rcases hr with rfl | ⟨t, rfl | rfl⟩ <;> rw [takeQuoted.eq_def] <;> simp

theorem takeQuoted_char (acc : Str) (c : Nat) (rest : Str) (h : c ≠ 34) :
    takeQuoted acc (c :: rest) = takeQuoted (c :: acc) rest := by
  rw [takeQuoted.eq_def]; simp [h]

theorem takeQuoted_escaped (f : Str) (acc rest : Str) (hr : delim rest) :
    takeQuoted acc (escape f ++ 34 :: rest) = some (acc.reverse ++ f, rest) := by
  induction f generalizing acc with
  | nil => simpa [escape] using takeQuoted_close acc rest hr
  | cons c f ih =>
    by_cases hc : c = 34
    · subst hc
      have := ih (34 :: acc)
      simp only [escape, List.flatMap_cons, beq_self_eq_true, if_true, List.cons_append, List.nil_append] at this ⊢
      rw [takeQuoted_qq, this]; simp
    · have := ih (c :: acc)
      simp only [escape, List.flatMap_cons, beq_iff_eq, hc, if_false, List.cons_append, List.nil_append] at this ⊢
      rw [takeQuoted_char acc c _ hc, this]; simp

theorem not_needsQuote (f : Str) (h : needsQuote f = false) : ∀ c ∈ f, c ≠ 44 ∧ c ≠ 10 ∧ c ≠ 34 := by
  intro c hc
  have := (List.any_eq_false.mp h) c hc
  simp only [Bool.or_eq_true, beq_iff_eq, not_or] at this
  exact ⟨this.1.1.1, this.1.2, this.1.1.2⟩

theorem readField_writeField (q : Str → Bool) (f : Str) (hq : needsQuote f = true → q f = true) (rest : Str) (hr : delim rest) :
    readField (writeField q f ++ rest) = some (f, rest) := by
  unfold writeField
  by_cases hqf : q f = true
  · simp only [hqf, if_true, List.cons_append, List.append_assoc, readField]
    have := takeQuoted_escaped f [] rest hr
    simpa using this
  · have hn : needsQuote f = false := by
      cases h : needsQuote f with
      | false => rfl
      | true => exact absurd (hq h) hqf
    have hplain := not_needsQuote f hn
    simp only [hqf, Bool.false_eq_true, if_false]
    have h34 : ∀ t, f ++ rest ≠ 34 :: t := by
      intro t heq
      cases f with
      | nil =>
        rcases hr with rfl | ⟨u, rfl | rfl⟩ <;> simp at heq
      | cons c f =>
        simp only [List.cons_append, List.cons.injEq] at heq
        exact (hplain c (by simp)).2.2 heq.1
    have hrf : readField (f ++ rest) = takeUnquoted [] (f ++ rest) := by
      cases hfr : f ++ rest with
      | nil => rfl
      | cons c t =>
        by_cases hc : c = 34
        · subst hc; exact absurd hfr (h34 t)
        · unfold readField; split
          · rename_i heq; simp only [List.cons.injEq] at heq; exact absurd heq.1 hc
          · rfl
    rw [hrf]
    have := takeUnquoted_plain f hplain [] rest hr
    simpa using this

theorem readRecord_step (fuel : Nat) (s : Str) (acc : List Str) :
    readRecord (fuel + 1) s acc =
      match readField s with
      | none => none
      | some (f, rest) =>
        match rest with
        | [] => some ((f :: acc).reverse, [])
        | d :: rest' => if d == 10 then some ((f :: acc).reverse, rest') else readRecord fuel rest' (f :: acc) := by
  rfl

theorem readRecord_writeFields (q : Str → Bool) (hq : ∀ f, needsQuote f = true → q f = true) :
    ∀ (r : List Str), r ≠ [] → ∀ (acc : List Str) (rest : Str) (fuel : Nat), r.length ≤ fuel →
      readRecord fuel (writeFields q r ++ 10 :: rest) acc = some (acc.reverse ++ r, rest)
  | [], h, _, _, _, _ => absurd rfl h
  | [f], _, acc, rest, fuel, hfuel => by
    cases fuel with
    | zero => simp at hfuel
    | succ n =>
      rw [readRecord_step]
      simp only [writeFields]
      rw [readField_writeField q f (hq f) (10 :: rest) (Or.inr ⟨rest, Or.inr rfl⟩)]
      simp
  | f :: g :: fs, _, acc, rest, fuel, hfuel => by
    cases fuel with
    | zero => simp at hfuel
    | succ n =>
      rw [readRecord_step]
      simp only [writeFields, List.append_assoc, List.cons_append]
      rw [readField_writeField q f (hq f) _ (Or.inr ⟨_, Or.inl rfl⟩)]
      have ih := readRecord_writeFields q hq (g :: fs) (by simp) (f :: acc) rest n (by simp at hfuel ⊢; omega)
      simp only [show ((44 : Nat) == 10) = false by decide, Bool.false_eq_true, if_false]
      rw [ih]; simp

theorem length_writeFields (q : Str → Bool) : ∀ r : List Str, r.length ≤ (writeFields q r).length + 1
  | [] => by simp
  | [f] => by simp
  | f :: g :: fs => by
    have := length_writeFields q (g :: fs)
    simp only [writeFields, List.length_cons, List.length_append] at this ⊢
    omega

theorem readAll_step (fuel : Nat) (s : Str) (pending : Nat) (acc : List (List Str)) :
    readAll (fuel + 1) s pending acc =
      match s with
      | [] => some acc.reverse
      | c :: rest =>
        if c == 10 then readAll fuel rest (pending + 1) acc
        else
          match readRecord (s.length + 1) s [] with
          | none => none
          | some (r, rest') => readAll fuel rest' 0 (r :: (List.replicate pending [] ++ acc)) := by
  rfl

/-- the first character of a written record is a line end only for the blank-line record -/
theorem writeFields_head (q : Str → Bool) (hq : ∀ f, needsQuote f = true → q f = true) (r : List Str) (hr : r ≠ [])
    (hb : ¬ (r = [[]] ∧ q [] = false)) (rest : Str) :
    ∃ c t, writeFields q r ++ 10 :: rest = c :: t ∧ c ≠ 10 := by
  have hfield : ∀ f : Str, (f ≠ [] ∨ q [] = true) → ∀ tail : Str, ∃ c t, writeField q f ++ tail = c :: t ∧ c ≠ 10 := by
    intro f hf tail
    unfold writeField
    by_cases hqf : q f = true
    · exact ⟨34, escape f ++ 34 :: tail, by simp [hqf], by decide⟩
    · cases f with
      | nil => rcases hf with h | h; exact absurd rfl h; exact absurd h hqf
      | cons c f =>
        refine ⟨c, f ++ tail, by simp [hqf], ?_⟩
        intro hc
        have hn : needsQuote (c :: f) = true := by simp [needsQuote, hc]
        exact hqf (hq _ hn)
  match r, hr with
  | [f], _ =>
    simp only [writeFields]
    apply hfield
    by_cases hf : f = []
    · subst hf; right
      cases hq0 : q [] with
      | true => rfl
      | false => exact absurd ⟨rfl, hq0⟩ hb
    · left; exact hf
  | f :: g :: fs, _ =>
    simp only [writeFields, List.append_assoc, List.cons_append]
    by_cases hf : f = []
    · subst hf
      unfold writeField
      by_cases hq0 : q [] = true
      · exact ⟨34, escape [] ++ 34 :: 44 :: (writeFields q (g :: fs) ++ 10 :: rest), by simp [hq0], by decide⟩
      · exact ⟨44, writeFields q (g :: fs) ++ 10 :: rest, by simp [hq0], by decide⟩
    · exact hfield f (Or.inl hf) _

theorem readAll_writeRows (q : Str → Bool) (hq : ∀ f, needsQuote f = true → q f = true) :
    ∀ (rows : List (List Str)), (∀ r ∈ rows, r ≠ []) → ∀ (fuel pending : Nat) (acc : List (List Str)), rows.length < fuel →
      readAll fuel (writeRows q rows) pending acc = some (acc.reverse ++ keepRows (!q []) rows pending)
  | [], _, fuel, pending, acc, hfuel => by
    cases fuel with
    | zero => simp at hfuel
    | succ n => rw [readAll_step]; simp [writeRows, keepRows]
  | r :: rs, hne, fuel, pending, acc, hfuel => by
    cases fuel with
    | zero => simp at hfuel
    | succ n =>
      have hr : r ≠ [] := hne r (by simp)
      have hrs : ∀ x ∈ rs, x ≠ [] := fun x hx => hne x (by simp [hx])
      have hn : rs.length < n := by simp at hfuel; omega
      have htext : writeRows q (r :: rs) = writeFields q r ++ 10 :: writeRows q rs := by
        simp [writeRows]
      rw [readAll_step, htext]
      by_cases hb : r = [[]] ∧ q [] = false
      · -- an empty line
        have : writeFields q r = [] := by
          rw [hb.1]; simp [writeFields, writeField, hb.2]
        rw [this]
        simp only [List.nil_append, beq_self_eq_true, if_true]
        rw [readAll_writeRows q hq rs hrs n (pending + 1) acc hn]
        simp [keepRows, hb]
      · obtain ⟨c, t, hct, hc10⟩ := writeFields_head q hq r hr hb (writeRows q rs)
        have hrec := readRecord_writeFields q hq r hr [] (writeRows q rs)
          ((writeFields q r ++ 10 :: writeRows q rs).length + 1)
          (by have := length_writeFields q r; simp only [List.length_append, List.length_cons]; omega)
        rw [hct] at hrec ⊢
        simp only [beq_iff_eq, hc10, if_false]
        rw [hrec]
        simp only [List.reverse_nil, List.nil_append]
        rw [readAll_writeRows q hq rs hrs n 0 _ hn]
        simp [keepRows, hb]

theorem normalize_id : ∀ s : Str, (13 : Nat) ∉ s → normalize s = s
  | [], _ => rfl
  | c :: rest, h => by
    have hc : c ≠ 13 := fun e => h (by simp [e])
    have hrest : (13 : Nat) ∉ rest := fun e => h (by simp [e])
    have ih := normalize_id rest hrest
    rw [normalize.eq_def]
    split
    · rename_i heq; simp at heq
    · rename_i heq; simp only [List.cons.injEq] at heq; exact absurd heq.1 hc
    · rename_i heq; simp only [List.cons.injEq] at heq; exact absurd heq.1 hc
    · rename_i c' rest' _ _ heq
      simp only [List.cons.injEq] at heq
      rw [← heq.1, ← heq.2, ih]

theorem mem_escape (f : Str) (c : Nat) (h : c ∈ escape f) : c = 34 ∨ c ∈ f := by
  simp only [escape, List.mem_flatMap] at h
  obtain ⟨d, hd, hc⟩ := h
  by_cases h34 : d = 34
  · subst h34; simp at hc; left; exact hc
  · simp [h34] at hc; right; rw [hc]; exact hd

theorem mem_writeField (q : Str → Bool) (f : Str) (c : Nat) (h : c ∈ writeField q f) : c = 34 ∨ c ∈ f := by
  unfold writeField at h
  split at h
  · simp only [List.mem_cons, List.mem_append, List.mem_nil_iff, or_false] at h
    rcases h with h | h | h
    · left; exact h
    · exact mem_escape f c h
    · left; exact h
  · right; exact h

theorem mem_writeFields (q : Str → Bool) : ∀ (r : List Str) (c : Nat), c ∈ writeFields q r → c = 34 ∨ c = 44 ∨ ∃ f ∈ r, c ∈ f
  | [], c, h => by simp [writeFields] at h
  | [f], c, h => by
    rcases mem_writeField q f c (by simpa [writeFields] using h) with h | h
    · left; exact h
    · right; right; exact ⟨f, by simp, h⟩
  | f :: g :: fs, c, h => by
    simp only [writeFields, List.mem_append, List.mem_cons] at h
    rcases h with h | h | h
    · rcases mem_writeField q f c h with h | h
      · left; exact h
      · right; right; exact ⟨f, by simp, h⟩
    · right; left; exact h
    · rcases mem_writeFields q (g :: fs) c (by simpa [writeFields] using h) with h | h | ⟨x, hx, hc⟩
      · left; exact h
      · right; left; exact h
      · right; right; exact ⟨x, by simp at hx ⊢; right; exact hx, hc⟩

/-- **C01_csv_text_roundtrip** -/
theorem C01_csv_text_roundtrip (q : Str → Bool) (hq : ∀ f, needsQuote f = true → q f = true)
    (rows : List (List Str)) (hne : ∀ r ∈ rows, r ≠ []) (hcr : ∀ r ∈ rows, ∀ f ∈ r, (13 : Nat) ∉ f) :
    readRows (writeRows q rows) = some (keepRows (!q []) rows 0) := by
  have hno : (13 : Nat) ∉ writeRows q rows := by
    intro h
    simp only [writeRows, List.mem_flatMap, List.mem_append, List.mem_cons, List.mem_nil_iff, or_false] at h
    obtain ⟨r, hr, h | h⟩ := h
    · rcases mem_writeFields q r 13 h with h | h | ⟨f, hf, hc⟩
      · simp at h
      · simp at h
      · exact hcr r hr f hf hc
    · simp at h
  unfold readRows
  simp only [normalize_id _ hno]
  have hlen : rows.length < (writeRows q rows).length + 1 := by
    have : ∀ l : List (List Str), l.length ≤ (writeRows q l).length := by
      intro l
      induction l with
      | nil => simp
      | cons r rs ih => simp only [writeRows, List.flatMap_cons, List.length_append, List.length_cons, List.length_nil] at ih ⊢; omega
    have := this rows
    omega
  have := readAll_writeRows q hq rows hne _ 0 [] hlen
  simpa using this

theorem normalize_append_noCR : ∀ (s t : Str), (13 : Nat) ∉ s → normalize (s ++ t) = s ++ normalize t
  | [], t, _ => rfl
  | c :: rest, t, h => by
    have hc : c ≠ 13 := fun e => h (by simp [e])
    have hrest : (13 : Nat) ∉ rest := fun e => h (by simp [e])
    have ih := normalize_append_noCR rest t hrest
    rw [List.cons_append, normalize.eq_def]
    split
    · rename_i heq; simp at heq
    · rename_i heq; simp only [List.cons.injEq] at heq; exact absurd heq.1 hc
    · rename_i heq; simp only [List.cons.injEq] at heq; exact absurd heq.1 hc
    · rename_i c' rest' _ _ heq
      simp only [List.cons.injEq] at heq
      rw [← heq.1, ← heq.2, ih]
      rfl

theorem normalize_crlf (t : Str) : normalize (13 :: 10 :: t) = 10 :: normalize t := by
  simp [normalize]

theorem normalize_lf (t : Str) : normalize (10 :: t) = 10 :: normalize t := by
  simp [normalize]

theorem noCR_writeFields (q : Str → Bool) (r : List Str) (h : ∀ f ∈ r, (13 : Nat) ∉ f) : (13 : Nat) ∉ writeFields q r := by
  intro hm
  rcases mem_writeFields q r 13 hm with h1 | h1 | ⟨f, hf, hc⟩
  · simp at h1
  · simp at h1
  · exact h f hf hc

/-- reading normalises CR LF line ends: a file written with them is read like the file written with LF -/
theorem normalize_writeRowsCRLF (q : Str → Bool) (rows : List (List Str)) (hcr : ∀ r ∈ rows, ∀ f ∈ r, (13 : Nat) ∉ f) :
    normalize (writeRowsCRLF q rows) = normalize (writeRows q rows) := by
  induction rows with
  | nil => rfl
  | cons r rs ih =>
    have hr := noCR_writeFields q r (hcr r (by simp))
    have ih' := ih (fun x hx => hcr x (by simp [hx]))
    simp only [writeRowsCRLF, writeRows, List.flatMap_cons, List.append_assoc] at ih' ⊢
    rw [normalize_append_noCR _ _ hr, normalize_append_noCR _ _ hr]
    simp only [List.cons_append, List.nil_append]
    rw [normalize_crlf]
    show writeFields q r ++ 10 :: normalize (writeRowsCRLF q rs) = writeFields q r ++ normalize (10 :: writeRows q rs)
    rw [normalize_lf]
    simp only [writeRowsCRLF, writeRows] at ih' ⊢
    rw [ih']

/-- **C01_csv_text_roundtrip_crlf**: the round trip for files with CR LF line ends -/
theorem C01_csv_text_roundtrip_crlf (q : Str → Bool) (hq : ∀ f, needsQuote f = true → q f = true)
    (rows : List (List Str)) (hne : ∀ r ∈ rows, r ≠ []) (hcr : ∀ r ∈ rows, ∀ f ∈ r, (13 : Nat) ∉ f) :
    readRows (writeRowsCRLF q rows) = some (keepRows (!q []) rows 0) := by
  have h := C01_csv_text_roundtrip q hq rows hne hcr
  unfold readRows at h ⊢
  rw [normalize_writeRowsCRLF q rows hcr]
  exact h

/-- **C01_csv_file_cells_verbatim**: file text → cells. Whatever (sound) quoting policy wrote the file, the reader
succeeds and every cell position reads the text that was written there. -/
theorem C01_csv_file_cells_verbatim (q : Str → Bool) (hq : ∀ f, needsQuote f = true → q f = true)
    (rows : List (List Str)) (hne : ∀ r ∈ rows, r ≠ []) (hcr : ∀ r ∈ rows, ∀ f ∈ r, (13 : Nat) ∉ f) :
    ∃ g, readRows (writeRows q rows) = some g ∧ ∀ i j, Spec.Grid.cellAt g i j = Spec.Grid.cellAt rows i j := by
  refine ⟨keepRows (!q []) rows 0, C01_csv_text_roundtrip q hq rows hne hcr, fun i j => ?_⟩
  have := (Props.C01Grid.keepRows_cells (!q []) rows 0).1 i j
  simpa using this

/-- a bare quote inside an unquoted field is an error, whatever surrounds it (`ErrBareQuote`) -/
theorem takeUnquoted_bare_quote (f : Str) (hf : ∀ c ∈ f, c ≠ 44 ∧ c ≠ 10 ∧ c ≠ 34) (acc rest : Str) :
    takeUnquoted acc (f ++ 34 :: rest) = none := by
  induction f generalizing acc with
  | nil => rw [List.nil_append, takeUnquoted.eq_def]; simp
  | cons c f ih =>
    rw [List.cons_append, takeUnquoted_char acc c _ (hf c (by simp))]
    exact ih (fun d hd => hf d (by simp [hd])) (c :: acc)

-- tests (labelled as tests): the premises are satisfiable by a grid with blanks at cell ends, a comma, quotes, a line
-- break and a blank-line record; malformed text is an error
example : readRows (writeRows needsQuote [[[32, 97], [97, 44, 98]], [[]], [[34, 120, 34], [108, 10, 109], []]]) =
    some [[[32, 97], [97, 44, 98]], [], [[34, 120, 34], [108, 10, 109], []]] := by decide
example : keepRows true [[[97]], [[]], [[98]], [[]]] 0 = [[[97]], [], [[98]]] := by decide
example : readRows [97, 34, 98, 10] = none := by decide                 -- a"b      bare quote
example : readRows [34, 97, 34, 98, 10] = none := by decide             -- "a"b     text after the closing quote
example : readRows [34, 97, 10, 98] = none := by decide                 -- "a⏎b     unterminated
example : readRows [97, 13, 10, 98, 13] = some [[[97]], [[98]]] := by decide   -- CR LF line ends, CR before EOF

end TableauVerif.Props.C01Csv
