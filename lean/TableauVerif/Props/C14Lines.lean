/-
C14 — name line / type line: a header cell that holds the column's name on line 1 and its type on line 2 is cut at the
line break, and each reader takes the line its resolved option names: line 1 is the name, line 2 the type, further lines
are empty — for all names and types without a line break. (`ExtractFromCell`, modelled by
`Model.TableParser.extractFromCell`, tied by `corr.confgen.tableParse` and, end to end, by the line twin of `e2e.C14`.)
-/
import TableauVerif.Model.TableParser
namespace TableauVerif.Props.C14Lines
open TableauVerif TableauVerif.Model.TableParser

theorem splitOn_nosep (c : Nat) : ∀ a : Str, c ∉ a → Str.splitOn c a = [a]
  | [], _ => rfl
  | x :: xs, h => by
    have hx : x ≠ c := fun e => h (by simp [e])
    have ih := splitOn_nosep c xs (fun e => h (by simp [e]))
    simp [Str.splitOn, hx, ih]

theorem splitOn_append_sep (c : Nat) : ∀ (a b : Str), c ∉ a → Str.splitOn c (a ++ c :: b) = a :: Str.splitOn c b
  | [], b, _ => by simp [Str.splitOn]
  | x :: xs, b, h => by
    have hx : x ≠ c := fun e => h (by simp [e])
    have ih := splitOn_append_sep c xs b (fun e => h (by simp [e]))
    simp [Str.splitOn, hx, ih]

/-- **C14_header_cell_lines** -/
theorem C14_header_cell_lines (name typ : Str) (hn : (10 : Nat) ∉ name) (ht : (10 : Nat) ∉ typ) :
    extractFromCell (name ++ 10 :: typ) 1 = Model.Literal.trimSpace name ∧
    extractFromCell (name ++ 10 :: typ) 2 = Model.Literal.trimSpace typ ∧
    ∀ k : Int, 3 ≤ k → extractFromCell (name ++ 10 :: typ) k = [] := by
  have hl : Str.splitOn 10 (name ++ 10 :: typ) = [name, typ] := by
    rw [splitOn_append_sep 10 name typ hn, splitOn_nosep 10 typ ht]
  refine ⟨?_, ?_, ?_⟩
  · simp [extractFromCell, hl]
  · simp [extractFromCell, hl]
  · intro k hk
    have h0 : ¬ (k == 0) = true := by simp; omega
    have h2 : ¬ ((2 : Int) ≥ k) := by omega
    simp [extractFromCell, hl, h0, h2]

-- test (labelled as a test)
example : extractFromCell (Str.ofString "ID\nmap<uint32, Item>") 1 = Str.ofString "ID" ∧
    extractFromCell (Str.ofString "ID\nmap<uint32, Item>") 2 = Str.ofString "map<uint32, Item>" := by decide

end TableauVerif.Props.C14Lines
