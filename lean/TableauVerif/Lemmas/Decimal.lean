import TableauVerif.Model.Basic
namespace TableauVerif.Lemmas.Decimal
open TableauVerif TableauVerif.Str

theorem isDigit_digit (d : Nat) (h : d < 10) : isDigit (48 + d) = true := by
  simp [isDigit]; omega

theorem parseNatAux_digit (d : Nat) (h : d < 10) (cs : Str) (a : Nat) :
    parseNatAux ((48 + d) :: cs) a = parseNatAux cs (a * 10 + d) := by
  simp [parseNatAux, isDigit_digit d h]

theorem decimalPos_parse (fuel : Nat) : ∀ (n : Nat) (acc : Str), n < fuel →
    ∃ k, ∀ a, parseNatAux (decimalPos fuel n acc) a = parseNatAux acc (a * 10 ^ k + n) := by
  induction fuel with
  | zero => intro n acc h; omega
  | succ fuel ih =>
    intro n acc h
    unfold decimalPos
    by_cases hn : n < 10
    · simp only [hn, if_true]
      exact ⟨1, fun a => by rw [parseNatAux_digit n hn, Nat.pow_one]⟩
    · simp only [hn, if_false]
      obtain ⟨k, hk⟩ := ih (n / 10) ((48 + n % 10) :: acc) (by omega)
      refine ⟨k + 1, fun a => ?_⟩
      rw [hk a, parseNatAux_digit (n % 10) (Nat.mod_lt _ (by omega))]
      congr 1
      rw [Nat.pow_succ]
      have := Nat.div_add_mod n 10
      rw [Nat.add_mul, Nat.mul_assoc]
      omega

theorem decimalPos_ne_nil (fuel : Nat) : ∀ (n : Nat) (acc : Str), (acc ≠ [] ∨ 0 < fuel) →
    decimalPos fuel n acc ≠ [] := by
  induction fuel with
  | zero =>
    intro n acc h
    cases h with
    | inl h => simpa [decimalPos] using h
    | inr h => omega
  | succ fuel ih =>
    intro n acc _
    unfold decimalPos
    by_cases hn : n < 10
    · simp [hn]
    · simp only [hn, if_false]
      exact ih _ _ (Or.inl (by simp))

theorem decimal_ne_nil (n : Nat) : decimal n ≠ [] :=
  decimalPos_ne_nil (n + 1) n [] (Or.inr (by omega))

/-- `strconv`-style round trip on naturals, for every `n` -/
theorem parseNat_decimal (n : Nat) : parseNat (decimal n) = some n := by
  unfold parseNat
  have hne := decimal_ne_nil n
  obtain ⟨k, hk⟩ := decimalPos_parse (n + 1) n [] (by omega)
  have := hk 0
  unfold decimal at hne ⊢
  split
  · rename_i heq; exact absurd heq hne
  · rename_i heq; simp [parseNatAux] at this; exact this

theorem decimalPos_digits (fuel : Nat) : ∀ (n : Nat) (acc : Str), (∀ c ∈ acc, isDigit c = true) →
    ∀ c ∈ decimalPos fuel n acc, isDigit c = true := by
  induction fuel with
  | zero => intro n acc h; simpa [decimalPos] using h
  | succ fuel ih =>
    intro n acc h
    unfold decimalPos
    by_cases hn : n < 10
    · simp only [hn, if_true]
      intro c hc
      cases hc with
      | head => exact isDigit_digit n hn
      | tail _ h' => exact h c h'
    · simp only [hn, if_false]
      apply ih
      intro c hc
      cases hc with
      | head => exact isDigit_digit _ (Nat.mod_lt _ (by omega))
      | tail _ h' => exact h c h'

theorem decimal_digits (n : Nat) : ∀ c ∈ decimal n, isDigit c = true :=
  decimalPos_digits (n + 1) n [] (by simp)

theorem decimal_injective (a b : Nat) (h : decimal a = decimal b) : a = b := by
  have ha := parseNat_decimal a
  have hb := parseNat_decimal b
  rw [h] at ha
  rw [ha] at hb
  exact Option.some.inj hb

end TableauVerif.Lemmas.Decimal
