/-
The one non-linear fact behind the calendar model (`Model.Time.civilFromDays`, Hinnant's algorithm): within a 400-year
era of 146097 days, the year-of-era formula lands in 0..399 and leaves a day-of-year in 0..365, and day 365 only occurs before a leap year's March. It is a statement
about finitely many days; it is checked for every one of them by kernel evaluation (`decide +kernel`, Nat arithmetic)
and lifted to the integers by `omega`.
-/
namespace TableauVerif.Lemmas.CivilEra

def yoeN (doe : Nat) : Nat := (doe - doe / 1460 + doe / 36524 - doe / 146096) / 365

/-- Gregorian leap rule on a year of the era (the era starts in March: its last day, day 365 of a year, is 29 February
of the NEXT civil year) -/
def leapN (y : Nat) : Bool := (y % 4 == 0 && y % 100 != 0) || y % 400 == 0

def chkN (doe : Nat) : Bool :=
  let yoe := yoeN doe
  let s := 365 * yoe + yoe / 4 - yoe / 100
  decide (yoe ≤ 399) && decide (s ≤ doe) && decide (doe - s ≤ 365) && (decide (doe - s < 365) || leapN (yoe + 1))

theorem chk_all :
    (List.range 147).all (fun a => (List.range 1000).all (fun b => decide (146097 ≤ a * 1000 + b) || chkN (a * 1000 + b))) = true := by
  decide +kernel

end TableauVerif.Lemmas.CivilEra
