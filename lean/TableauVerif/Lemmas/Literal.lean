import TableauVerif.Model.Literal
import TableauVerif.Spec.C03
import TableauVerif.Lemmas.Decimal
namespace TableauVerif.Lemmas.Literal
open TableauVerif TableauVerif.Str TableauVerif.Model.Literal TableauVerif.Spec.C03 TableauVerif.Lemmas.Decimal

theorem dropWhile_eq_self_of_head {p : Nat → Bool} : ∀ (s : Str), (∀ c, s.head? = some c → p c = false) → s.dropWhile p = s
  | [], _ => rfl
  | c :: cs, h => by simp [List.dropWhile, h c rfl]

theorem trim_eq_self (p : Nat → Bool) (s : Str) (h : ∀ c ∈ s, p c = false) : Str.trim p s = s := by
  unfold Str.trim Str.dropWhileEnd
  have h1 : s.dropWhile p = s := dropWhile_eq_self_of_head s (fun c hc => h c (by
    cases s with
    | nil => simp at hc
    | cons x xs => simp at hc; subst hc; simp))
  rw [h1]
  have h2 : s.reverse.dropWhile p = s.reverse := dropWhile_eq_self_of_head s.reverse (fun c hc => h c (by
    have : c ∈ s.reverse := by
      cases hr : s.reverse with
      | nil => rw [hr] at hc; simp at hc
      | cons x xs => rw [hr] at hc; simp at hc; subst hc; simp
    simpa using this))
  rw [h2, List.reverse_reverse]

theorem isDigit_not_space (c : Nat) (h : isDigit c = true) : isSpace c = false := by
  simp [isDigit] at h
  simp [isSpace]
  omega

theorem decimalInt_no_space (n : Int) : ∀ c ∈ decimalInt n, isSpace c = false := by
  intro c hc
  unfold decimalInt at hc
  split at hc
  · cases hc with
    | head => decide
    | tail _ h => exact isDigit_not_space c (decimal_digits _ c h)
  · exact isDigit_not_space c (decimal_digits _ c hc)

theorem trimSpace_decimalInt (n : Int) : trimSpace (decimalInt n) = decimalInt n :=
  trim_eq_self isSpace _ (decimalInt_no_space n)

theorem decimalInt_ne_nil (n : Int) : decimalInt n ≠ [] := by
  unfold decimalInt
  split
  · simp
  · exact decimal_ne_nil _

/-- the first rune of `decimal m` is a digit -/
theorem decimal_head (m : Nat) : ∃ c rest, decimal m = c :: rest ∧ isDigit c = true := by
  cases h : decimal m with
  | nil => exact absurd h (decimal_ne_nil m)
  | cons c rest => exact ⟨c, rest, rfl, decimal_digits m c (by rw [h]; simp)⟩

theorem parseInt64_nonneg (m : Nat) (h : (m : Int) ≤ maxInt64) : parseInt64 (decimal m) = some (m : Int) := by
  obtain ⟨c, rest, hd, hc⟩ := decimal_head m
  have hp := parseNat_decimal m
  rw [hd] at hp ⊢
  have h43 : c ≠ 43 := by intro h'; subst h'; simp [isDigit] at hc
  have h45 : c ≠ 45 := by intro h'; subst h'; simp [isDigit] at hc
  simp [parseInt64, h43, h45, hp, h]

theorem parseInt64_neg (m : Nat) (h : -(m : Int) ≥ minInt64) : parseInt64 (45 :: decimal m) = some (-(m : Int)) := by
  simp [parseInt64, parseNat_decimal, h]

theorem parseUint64_dec (m : Nat) (h : (m : Int) ≤ maxUint64) : parseUint64 (decimal m) = some m := by
  simp [parseUint64, parseNat_decimal, h]

/-- reading a digit run -/
theorem readDigits_all (s : Str) : ∀ (acc cnt : Nat), (∀ c ∈ s, isDigit c = true) →
    ∃ v, parseNatAux s acc = some v ∧ readDigits s acc cnt = (v, cnt + s.length, []) := by
  induction s with
  | nil => intro acc cnt _; exact ⟨acc, rfl, by simp [readDigits]⟩
  | cons c cs ih =>
    intro acc cnt h
    have hc : isDigit c = true := h c (by simp)
    obtain ⟨v, hv1, hv2⟩ := ih (acc * 10 + (c - 48)) (cnt + 1) (fun x hx => h x (by simp [hx]))
    refine ⟨v, by simp [parseNatAux, hc, hv1], ?_⟩
    simp only [readDigits, hc, if_true, hv2, List.length_cons]
    congr 2
    omega

theorem readDigits_decimal (m : Nat) : readDigits (decimal m) 0 0 = (m, (decimal m).length, []) := by
  obtain ⟨v, hv1, hv2⟩ := readDigits_all (decimal m) 0 0 (decimal_digits m)
  have hp := parseNat_decimal m
  unfold parseNat at hp
  have hne := decimal_ne_nil m
  cases hd : decimal m with
  | nil => exact absurd hd hne
  | cons c rest =>
    rw [hd] at hp hv1 hv2
    simp at hp
    rw [hp] at hv1
    cases hv1
    simpa using hv2

theorem lower_digit (c : Nat) (h : isDigit c = true) : lower c = c := by
  simp [isDigit] at h
  simp [lower]
  omega

theorem eqFold_digits_false (s : Str) (lit : String) (hs : ∀ c ∈ s, isDigit c = true)
    (hl : ∃ c ∈ Str.ofString lit, isDigit c = false) : eqFold s lit = false := by
  unfold eqFold
  obtain ⟨c, hc, hcd⟩ := hl
  apply Bool.eq_false_iff.mpr
  intro h
  have heq : s.map lower = Str.ofString lit := by simpa using h
  rw [← heq] at hc
  obtain ⟨x, hx, hxc⟩ := List.mem_map.mp hc
  have := hs x hx
  rw [lower_digit x this] at hxc
  subst hxc
  rw [this] at hcd
  cases hcd

theorem parseFloatBody_digits (neg signed : Bool) (m : Nat) :
    parseFloatBody neg signed (decimal m) = .num neg m 0 (decimal m).length true := by
  obtain ⟨c, rest, hd, hc⟩ := decimal_head m
  have hdig := decimal_digits m
  have hrd := readDigits_decimal m
  have hinf : eqFold (decimal m) "inf" = false := eqFold_digits_false _ _ hdig ⟨105, by decide, by decide⟩
  have hinfi : eqFold (decimal m) "infinity" = false := eqFold_digits_false _ _ hdig ⟨105, by decide, by decide⟩
  have hnan : eqFold (decimal m) "nan" = false := eqFold_digits_false _ _ hdig ⟨110, by decide, by decide⟩
  have hus : (decimal m).any (fun c => c == 95) = false := by
    apply Bool.eq_false_iff.mpr
    intro h
    obtain ⟨x, hx, hx95⟩ := List.any_eq_true.mp h
    have := hdig x hx
    simp at hx95; subst hx95
    simp [isDigit] at this
  have hhex : isHexPrefix (decimal m) = false := by
    rw [hd]
    unfold isHexPrefix
    split
    · rename_i x tl heq
      have hx : isDigit x = true := hdig x (by rw [hd, heq]; simp)
      rw [lower_digit x hx]
      simp [isDigit] at hx
      simp; omega
    · rfl
  have hlen : (decimal m).length ≠ 0 := by rw [hd]; simp
  unfold parseFloatBody
  simp only [hinf, hinfi, hnan, hus, hhex, Bool.or_false, Bool.and_false, Bool.false_eq_true, if_false]
  unfold parseMantissa
  simp only [hrd]
  simp [hlen, parseExp]

/-- an all-digit text is read by the float-literal reader as that integer literal -/
theorem parseFloatLit_digits (m : Nat) :
    parseFloatLit (decimal m) = .num false m 0 (decimal m).length true := by
  obtain ⟨c, rest, hd, hc⟩ := decimal_head m
  have h43 : c ≠ 43 := by intro h'; subst h'; simp [isDigit] at hc
  have h45 : c ≠ 45 := by intro h'; subst h'; simp [isDigit] at hc
  have hs : splitSign (decimal m) = (false, decimal m, false) := by
    rw [hd]
    unfold splitSign
    split
    · rename_i heq; simp at heq; exact absurd heq.1 h43
    · rename_i heq; simp at heq; exact absurd heq.1 h45
    · rfl
  unfold parseFloatLit
  rw [hs]
  exact parseFloatBody_digits false false m

theorem parseFloatLit_neg_digits (m : Nat) :
    parseFloatLit (45 :: decimal m) = .num true m 0 (decimal m).length true := by
  unfold parseFloatLit
  simp only [splitSign]
  exact parseFloatBody_digits true true m

end TableauVerif.Lemmas.Literal
