/- lifting of `CivilEra.chk_all` to the integers -/
import TableauVerif.Lemmas.CivilEra
namespace TableauVerif.Lemmas.CivilEra

theorem chkN_of_lt (n : Nat) (h : n < 146097) : chkN n = true := by
  have h1 := List.all_eq_true.mp chk_all (n / 1000) (by simp; omega)
  have h2 := List.all_eq_true.mp h1 (n % 1000) (by simp; omega)
  have hn : n / 1000 * 1000 + n % 1000 = n := by omega
  rw [hn] at h2
  simp only [Bool.or_eq_true, decide_eq_true_eq] at h2
  rcases h2 with h2 | h2
  · omega
  · exact h2

/-- the fact over the integers, as `civilFromDays` uses it -/
theorem yoe_range (doe : Int) (h0 : 0 ≤ doe) (h1 : doe < 146097) :
    let yoe := (doe - doe / 1460 + doe / 36524 - doe / 146096) / 365
    0 ≤ yoe ∧ yoe ≤ 399 ∧ 0 ≤ doe - (365 * yoe + yoe / 4 - yoe / 100) ∧ doe - (365 * yoe + yoe / 4 - yoe / 100) ≤ 365 ∧
    (doe - (365 * yoe + yoe / 4 - yoe / 100) = 365 →
      ((yoe + 1) % 4 = 0 ∧ (yoe + 1) % 100 ≠ 0) ∨ (yoe + 1) % 400 = 0) := by
  obtain ⟨n, rfl⟩ := Int.eq_ofNat_of_zero_le h0
  have hn : n < 146097 := by omega
  have hc := chkN_of_lt n hn
  simp only [chkN, yoeN, Bool.and_eq_true] at hc
  obtain ⟨⟨⟨hy, hs⟩, hd⟩, hl⟩ := hc
  have hy := of_decide_eq_true hy
  have hs := of_decide_eq_true hs
  have hd := of_decide_eq_true hd
  simp only [Bool.or_eq_true] at hl
  have hl : (n - (365 * ((n - n / 1460 + n / 36524 - n / 146096) / 365) + (n - n / 1460 + n / 36524 - n / 146096) / 365 / 4 -
        (n - n / 1460 + n / 36524 - n / 146096) / 365 / 100) < 365) ∨
      ((((n - n / 1460 + n / 36524 - n / 146096) / 365 + 1) % 4 = 0 ∧ ((n - n / 1460 + n / 36524 - n / 146096) / 365 + 1) % 100 ≠ 0) ∨
        ((n - n / 1460 + n / 36524 - n / 146096) / 365 + 1) % 400 = 0) := by
    rcases hl with h | h
    · exact Or.inl (of_decide_eq_true h)
    · right
      simpa [leapN] using h
  have e1 : ((n - n / 1460 + n / 36524 - n / 146096 : Nat) : Int) = (n : Int) - n / 1460 + n / 36524 - n / 146096 := by
    omega
  generalize hF : n - n / 1460 + n / 36524 - n / 146096 = F at hy hs hd hl e1
  have e2 : ((F / 365 : Nat) : Int) = (n - n / 1460 + n / 36524 - n / 146096 : Int) / 365 := by
    rw [← e1]; omega
  simp only []
  rw [← e2]
  generalize F / 365 = Y at hy hs hd hl
  omega

end TableauVerif.Lemmas.CivilEra
