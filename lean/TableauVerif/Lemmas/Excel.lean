import TableauVerif.Model.Excel
namespace TableauVerif.Lemmas.Excel
open TableauVerif TableauVerif.Model.Excel

theorem decodeCol_append (xs : Str) (c : Nat) : decodeCol (xs ++ [c]) = decodeCol xs * 26 + (c - 64) := by
  simp [decodeCol, List.foldl_append]

theorem decode_letterAxis (n : Nat) : decodeCol (letterAxis n) = n + 1 := by
  induction n using Nat.strongRecOn with
  | _ n ih =>
    rw [letterAxis]
    split
    · rename_i h
      rw [decodeCol_append, ih (n / 26 - 1) (by omega)]
      omega
    · rename_i h
      simp [decodeCol]
      omega

theorem letterAxis_all_upper (n : Nat) : ∀ c ∈ letterAxis n, 65 ≤ c ∧ c ≤ 90 := by
  induction n using Nat.strongRecOn with
  | _ n ih =>
    rw [letterAxis]
    split
    · rename_i h
      intro c hc
      rw [List.mem_append] at hc
      cases hc with
      | inl h1 => exact ih _ (by omega) c h1
      | inr h2 => simp at h2; omega
    · intro c hc
      simp at hc; omega

end TableauVerif.Lemmas.Excel
