import TableauVerif.Model.Val
namespace TableauVerif.Lemmas.Val
open TableauVerif TableauVerif.Val

theorem getF_setF_same (m : List (Nat × Val)) (n : Nat) (v : Val) : getF (setF m n v) n = some v := by
  induction m with
  | nil => simp [setF, getF]
  | cons kv rest ih =>
    obtain ⟨k, w⟩ := kv
    unfold setF
    by_cases h1 : n < k
    · simp [h1, getF]
    · by_cases h2 : n = k
      · simp [h1, h2, getF]
      · have : ¬ k = n := fun h => h2 h.symm
        simp [h1, h2, getF, this, ih]

theorem getF_setF_other (m : List (Nat × Val)) (n k' : Nat) (v : Val) (h : k' ≠ n) :
    getF (setF m n v) k' = getF m k' := by
  induction m with
  | nil => simp [setF, getF]; intro h'; exact absurd h'.symm h
  | cons kv rest ih =>
    obtain ⟨k, w⟩ := kv
    unfold setF
    have hn : ¬ n = k' := fun h' => h h'.symm
    by_cases h1 : n < k
    · simp [h1, getF, hn]
    · by_cases h2 : n = k
      · subst h2
        simp [getF, hn]
      · simp only [h1, h2, if_false, getF]
        by_cases h3 : k = k'
        · simp [h3]
        · simp [h3, ih]

theorem getF_delF_same (m : List (Nat × Val)) (n : Nat) : getF (delF m n) n = none := by
  induction m with
  | nil => simp [delF, getF]
  | cons kv rest ih =>
    obtain ⟨k, w⟩ := kv
    unfold delF
    by_cases h : k = n
    · simp [h, ih]
    · simp [h, getF, ih]

theorem getF_delF_other (m : List (Nat × Val)) (n k' : Nat) (h : k' ≠ n) : getF (delF m n) k' = getF m k' := by
  induction m with
  | nil => simp [delF, getF]
  | cons kv rest ih =>
    obtain ⟨k, w⟩ := kv
    unfold delF
    by_cases h1 : k = n
    · subst h1
      have : ¬ k = k' := fun h' => h h'.symm
      simp [getF, this, ih]
    · simp only [h1, if_false, getF]
      by_cases h3 : k = k'
      · simp [h3]
      · simp [h3, ih]

end TableauVerif.Lemmas.Val
