/-
Specification of what `EmitTimezones` may write for a Timestamp, independent of the formatter model
(`Model.Rfc3339.format`): the text is an RFC 3339 date-time (`yyyy-MM-ddTHH:mm:ss[.fraction](Z|±hh:mm)`); read back,
it denotes the stored instant — the wall clock read as UTC minus the printed offset is the stored second, the fraction
is the stored nanoseconds, all of them — and the printed offset is the one the location has at that instant.

Used as the oracle `o.c20.emitts` on the output of the real `store` package and on the model's own output.
-/
import TableauVerif.Spec.C20
namespace TableauVerif.Spec.C20Emit
open TableauVerif TableauVerif.Model.Time TableauVerif.Spec.C20

/-- exactly `n` digits, as a number -/
def readN (n : Nat) (s : Str) : Option (Nat × Str) :=
  let d := s.take n
  if d.length = n && d.all Str.isDigit then (Str.parseNat d).map (fun v => (v, s.drop n)) else none

def expect (c : Nat) (s : Str) : Option Str :=
  match s with
  | x :: rest => if x = c then some rest else none
  | [] => none

/-- `.d{1,9}` → nanoseconds; no fraction → 0 -/
def readFrac (s : Str) : Option (Nat × Str) :=
  match s with
  | 46 :: rest =>
    let d := rest.takeWhile Str.isDigit
    if d.isEmpty || d.length > 9 then none
    else (Str.parseNat (d ++ List.replicate (9 - d.length) 48)).map (fun v => (v, rest.drop d.length))
  | _ => some (0, s)

/-- `Z` or `±hh:mm` → seconds east of UTC; nothing may follow -/
def readOffset (s : Str) : Option Int :=
  match s with
  | [90] => some 0
  | sign :: rest =>
    if sign = 43 || sign = 45 then do
      let (hh, r1) ← readN 2 rest
      let r2 ← expect 58 r1
      let (mm, r3) ← readN 2 r2
      if !r3.isEmpty || mm ≥ 60 then none
      else
        let v : Int := (hh * 3600 + mm * 60 : Nat)
        some (if sign = 45 then -v else v)
    else none
  | [] => none

def parse (s : Str) : Option (Wall × Nat × Int) := do
  let (y, r) ← readN 4 s
  let r ← expect 45 r
  let (mo, r) ← readN 2 r
  let r ← expect 45 r
  let (d, r) ← readN 2 r
  let r ← expect 84 r
  let (h, r) ← readN 2 r
  let r ← expect 58 r
  let (mi, r) ← readN 2 r
  let r ← expect 58 r
  let (sec, r) ← readN 2 r
  let (nanos, r) ← readFrac r
  let off ← readOffset r
  some ({ y := y, mo := mo, d := d, h := h, mi := mi, s := sec }, nanos, off)

/-- the oracle: `obs` is what was written for the instant (`t` seconds, `nanos`) in location `z` -/
def holds (z : Zone) (t : Int) (nanos : Nat) (obs : Str) : Verdict :=
  let off := lookupOffset z t
  if off % 60 != 0 then .unspec          -- RFC 3339 cannot print an offset with seconds (local mean time eras)
  else match parse obs with
    | none => .fails
    | some (w, n, o) =>
      if !w.valid then .fails
      else if w.asUTC - o == t && n == nanos && o == off then .holds else .fails

end TableauVerif.Spec.C20Emit
