/-
Specification of time-of-day / duration cells (C20, C03), independent of the model of the parser:
which texts MUST be accepted (with the length they state), which MUST be rejected, and the remainder that is
not asserted on.

Must accept:  HH:mm:ss, HH:mm, HHmmss, HHmm (two digits each) = HH hours + mm minutes + ss seconds;
              Go duration syntax: one to four segments `<n><unit>` with n < 10^6, unit ∈ h m s ms us ns
              = the sum of the segments, provided it fits an int64 count of nanoseconds; surrounding blanks are ignored.
Must reject:  a text with a character that no accepted spelling uses (anything but digits, the unit letters
              h m s u n µ μ, ':', '.', '+', '-' and blanks); digits only, but neither 4 nor 6 of them.
-/
import TableauVerif.Model.Duration
namespace TableauVerif.Spec.C20Dur
open TableauVerif TableauVerif.Model.Duration

def dig2? : Str → Option Nat
  | [a, b] => if Str.isDigit a && Str.isDigit b then some ((a - 48) * 10 + (b - 48)) else none
  | _ => none

def sec : Int := 1000000000

/-- the clock-like spellings -/
def clock? (s : Str) : Option Int :=
  match s with
  | [a, b, 58, c, d, 58, e, f] => do
    let h ← dig2? [a, b]; let m ← dig2? [c, d]; let x ← dig2? [e, f]
    pure ((h * 3600 + m * 60 + x : Nat) * sec)
  | [a, b, 58, c, d] => do
    let h ← dig2? [a, b]; let m ← dig2? [c, d]
    pure ((h * 3600 + m * 60 : Nat) * sec)
  | [a, b, c, d, e, f] => do
    let h ← dig2? [a, b]; let m ← dig2? [c, d]; let x ← dig2? [e, f]
    pure ((h * 3600 + m * 60 + x : Nat) * sec)
  | [a, b, c, d] => do
    let h ← dig2? [a, b]; let m ← dig2? [c, d]
    pure ((h * 3600 + m * 60 : Nat) * sec)
  | _ => none

def unitNanos? (u : Str) : Option Nat :=
  if u == Str.ofString "h" then some 3600000000000 else if u == Str.ofString "m" then some 60000000000
  else if u == Str.ofString "s" then some 1000000000 else if u == Str.ofString "ms" then some 1000000
  else if u == Str.ofString "us" then some 1000 else if u == Str.ofString "ns" then some 1 else none

/-- one `<n><unit>` segment at the head of the text: canonical decimal n < 10^6 -/
def segment? (s : Str) : Option (Nat × Str) :=
  let ds := s.takeWhile Str.isDigit
  let rest := s.dropWhile Str.isDigit
  let us := rest.takeWhile (fun c => !Str.isDigit c)
  let rest' := rest.dropWhile (fun c => !Str.isDigit c)
  if ds.isEmpty || ds.length > 6 || (ds.length > 1 && ds.head? == some 48) then none else
  match Str.parseNat ds, unitNanos? us with
  | some n, some u => some (n * u, rest')
  | _, _ => none

/-- the sum of the segments, when an int64 count of nanoseconds can hold it (about 292 years) -/
def fits (n : Nat) : Option Int := if n ≤ 9223372036854775807 then some n else none

def goSyntax? (s : Str) : Option Int :=
  match segment? s with
  | none => none
  | some (a, r1) => if r1.isEmpty then fits a else
    match segment? r1 with
    | none => none
    | some (b, r2) => if r2.isEmpty then fits (a + b) else
      match segment? r2 with
      | none => none
      | some (c, r3) => if r3.isEmpty then fits (a + b + c) else
        match segment? r3 with
        | none => none
        | some (d, r4) => if r4.isEmpty then fits (a + b + c + d) else none

def usable (c : Nat) : Bool :=
  Str.isDigit c || c == 104 || c == 109 || c == 115 || c == 117 || c == 110 || c == 181 || c == 956 ||
  c == 58 || c == 46 || c == 43 || c == 45 || Model.Literal.isSpace c

inductive Class where
  | accept (nanos : Int)
  | reject
  | unspec
deriving DecidableEq, Repr

def classify (raw : Str) : Class :=
  let s := Model.Literal.trimSpace raw
  match clock? s with
  | some n => .accept n
  | none =>
    match goSyntax? s with
    | some n => .accept n
    | none =>
      if s.any (fun c => !usable c) then .reject
      else if !s.isEmpty && s.all Str.isDigit && s.length != 4 && s.length != 6 then .reject
      else .unspec

/-- verdict on an observation of the implementation (a blank cell is an absent value) -/
def holdsDur (raw : Str) (obs : DRes) : String :=
  if (Model.Literal.trimSpace raw).isEmpty then (if obs == .absent then "holds" else "FAILS") else
  match classify raw, obs with
  | .accept n, .ok m => if n == m then "holds" else "FAILS"
  | .accept _, _ => "FAILS"
  | .reject, .err => "holds"
  | .reject, _ => "FAILS"
  | .unspec, _ => "unspec"

end TableauVerif.Spec.C20Dur
