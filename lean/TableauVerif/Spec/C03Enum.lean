/-
Specification of enum cells (C03): the alias, the name or the canonical decimal number of a value denote that
value; a word (letters, digits, underscores, starting with a letter) that is none of them — and not one of the
spellings of a special float — must be rejected; everything else is not asserted on.
-/
import TableauVerif.Model.EnumLit
import TableauVerif.Spec.C03
namespace TableauVerif.Spec.C03Enum
open TableauVerif TableauVerif.Model.EnumLit TableauVerif.Model.Literal

def isWordCh (c : Nat) : Bool := Str.isDigit c || Str.isUpper c || Str.isLower c || c == 95

def specialFloat (s : Str) : Bool :=
  let l := s.map lower
  l == Str.ofString "inf" || l == Str.ofString "infinity" || l == Str.ofString "nan"

inductive Class where
  | accept (n : Int)
  | reject
  | unspec
deriving DecidableEq, Repr

def classify (vals : List EVal) (raw : Str) : Class :=
  let v := trimSpace raw
  match vals.find? (fun e => (!e.alias.isEmpty && e.alias == v) || e.name == v || Spec.C03.decimalInt e.num == v) with
  | some e => .accept e.num
  | none =>
    match v with
    | c :: _ =>
      if (Str.isUpper c || Str.isLower c) && v.all isWordCh && !specialFloat v && !isHexPrefix v then .reject else .unspec
    | [] => .unspec

def holds (vals : List EVal) (raw : Str) (obs : Res) : String :=
  if (trimSpace raw).isEmpty then (if obs == .absent then "holds" else "FAILS") else
  match classify vals raw, obs with
  | .accept n, .ok m => if n == m then "holds" else "FAILS"
  | .accept _, _ => "FAILS"
  | .reject, .err _ => "holds"
  | .reject, _ => "FAILS"
  | .unspec, _ => "unspec"

end TableauVerif.Spec.C03Enum
