/-
Specification of the importer step for C01 / C08, written cell by cell (independent of the model's list surgery):
what a parser can observe of a grid is the text at each position (blank outside). A file written from `rows`
must read, at every position, the text that was written there (true of CSV since fix D46: empty lines used to be
skipped, which moved later rows up).
-/
import TableauVerif.Model.Basic
namespace TableauVerif.Spec.Grid
open TableauVerif

def cellAt (g : List (List Str)) (i j : Nat) : Str := (g.getD i []).getD j []

def width (g : List (List Str)) : Nat := g.foldl (fun a r => max a r.length) 0

/-- `obs` reads like `written` at every position either of them reaches -/
def sameCells (written obs : List (List Str)) : Bool :=
  let h := max written.length obs.length
  let w := max (width written) (width obs)
  (List.range h).all fun i => (List.range w).all fun j => cellAt obs i j == cellAt written i j

def holds (written obs : List (List Str)) : Bool := sameCells written obs

end TableauVerif.Spec.Grid
