/-
Specification side of C07 (independent of the model):
* an A1 position is letters (bijective base 26, 1-based) followed by the 1-based row in decimal;
* the structured description of an error shows, for every key, the value attached by the
  innermost layer that carries the key.
-/
import TableauVerif.Model.Basic
import TableauVerif.Model.Xerrors
namespace TableauVerif.Spec.C07
open TableauVerif TableauVerif.Model.Xerrors

/-- independent reader of an A1 string: `(row, col)` 0-based -/
def readA1 (s : Str) : Option (Nat × Nat) :=
  let letters := s.takeWhile Str.isUpper
  let digits := s.dropWhile Str.isUpper
  if letters.isEmpty then none else
  match Str.parseNat digits with
  | none => none
  | some r1 =>
    if r1 = 0 then none else
    if digits.head? = some 48 then none else   -- no leading zero
    let col1 := letters.foldl (fun acc c => acc * 26 + (c - 64)) 0
    some (r1 - 1, col1 - 1)

def holdsPosition (row col : Nat) (obs : Str) : Bool := readA1 obs == some (row, col)

/-- a value survives the text protocol iff it has no `|` and does not start/end with `' '`/`':'` -/
def safeVal (v : Str) : Bool :=
  !v.contains pipe && !(v.head?.any isTrimCut) && !(v.getLast?.any isTrimCut)

def safeKey (k : Str) : Bool :=
  !k.isEmpty && !k.contains pipe && !k.contains colon && !(k.head?.any isTrimCut) && !(k.getLast?.any isTrimCut)

/-- layers outermost first; the leaf contributes its kvs followed by `Reason` -/
def layers : Err → List (List KV)
  | .leaf kvs reason => [kvs ++ [(reasonKey, reason)]]
  | .wrap kvs inner => kvs :: layers inner

def allSafe (e : Err) : Bool :=
  (layers e).all fun l => l.all fun kv => safeKey kv.1 && safeVal kv.2

/-- the key whose value is followed by the `-1` of the coded error: the last key of the innermost
non-empty wrap layer (the text protocol appends `: -1` to that value; the properties never speak
about that key: it is `ColumnName`) -/
def junkKey (e : Err) : Option Str :=
  let wraps := (layers e).dropLast
  match (wraps.filter (fun l => !l.isEmpty)).getLast? with
  | none => none
  | some l => l.getLast?.map (·.1)

/-- what the description must show for `key`: the innermost layer's value -/
def innermost (e : Err) (key : Str) : Option Str :=
  ((layers e).flatten.reverse.find? (fun kv => kv.1 == key)).map (·.2)

inductive Verdict | holds | fails | unspec
def Verdict.toString : Verdict → String
  | .holds => "holds" | .fails => "FAILS" | .unspec => "unspec"

def holdsDesc (e : Err) (key : Str) (obs : Option Str) : Verdict :=
  if !allSafe e || !safeKey key || junkKey e == some key then .unspec
  else if obs == innermost e key then .holds else .fails

/-- **reported position ↔ reported content**: when an error names a plain A1 position, the sheet — read as
it was given, whatever its orientation — holds exactly the reported content at that position
(the content travels through `NewDesc`, which trims blanks and colons at both ends). -/
def holdsErrPos (grid : List (List Str)) (pos cell : Str) : Verdict :=
  match readA1 pos with
  | none => .unspec                      -- a range `[B...D]4` or `?4` (column not found)
  | some (r, c) =>
    let actual := (grid.getD r []).getD c []
    if Str.trim isTrimCut actual == cell then .holds else .fails

/-- protogen: a header that is valid but for column `k` is rejected at column `k` (the cursor that becomes
NameCellPos / TypeCellPos); an accepted header is outside the property -/
def holdsHeaderPos (k : Nat) (obs : Option Nat) : Verdict :=
  match obs with
  | none => .unspec
  | some c => if c == k then .holds else .fails

end TableauVerif.Spec.C07
