/-
Specification of C12 (range part), independent of the checker's control flow:
a range text denotes a set; the constraint holds iff the value is a member.
-/
import TableauVerif.Model.FieldProp
namespace TableauVerif.Spec.C12
open TableauVerif TableauVerif.Model.Literal TableauVerif.Model.FieldProp

/-- a bound: open (`~`) or a literal of the kind -/
inductive Bound | open_ | at_ (n : Int) | bad
deriving DecidableEq

def readBound (k : RKind) (s : Str) : Bound :=
  let t := trimSpace s
  if t == tilde then .open_
  else match k with
    | .signed => (match parseInt64 t with | some n => .at_ n | none => .bad)
    | _ => (match parseUint64 t with | some n => .at_ n | none => .bad)

/-- denotation of `"l,r"`: `none` = not a well-formed range for this kind -/
def denote (k : RKind) (range : Str) : Option (Bound × Bound) :=
  match Str.splitFirst comma range with
  | none => none
  | some (l, r) =>
    match readBound k l, readBound k r with
    | .bad, _ => none
    | _, .bad => none
    | lo, hi => some (lo, hi)

def contains (b : Bound × Bound) (v : Int) : Bool :=
  (match b.1 with | .at_ lo => lo ≤ v | _ => true) && (match b.2 with | .at_ hi => v ≤ hi | _ => true)

inductive Verdict | holds | fails | unspec
def Verdict.toString : Verdict → String
  | .holds => "holds" | .fails => "FAILS" | .unspec => "unspec"

/-- oracle for an observation of the range check of a PRESENT value of a kind with a range reading.
A well-formed range: accept iff member, reject with E2004 otherwise; never panic, whatever the text. -/
def holdsRange (range : Str) (k : RKind) (v : Int) (obs : RRes) : Verdict :=
  if obs == .panic then .fails
  else if (trimSpace range).isEmpty then (if obs == .ok then .holds else .fails)
  else if k == .other then
    -- kinds without a range reading: a comma-separated text must be ignored; other texts are unspecified
    (match Str.splitFirst comma range with
      | none => .unspec
      | some _ => if obs == .ok then .holds else .fails)
  else match denote k range with
    | none => .unspec          -- ill-formed range text: the property only demands "no crash" (above)
    | some b => if contains b v then (if obs == .ok then .holds else .fails)
                else (if obs == .e2004 then .holds else .fails)

end TableauVerif.Spec.C12
