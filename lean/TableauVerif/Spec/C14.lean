/-
Specification of C14, written independently of the model:
"the effective value is the most specific non-empty setting among
 field property, sheet row, book row ('#'), global options and the built-in default".
-/
import TableauVerif.Model.Options
namespace TableauVerif.Spec.C14
open TableauVerif.Model.Options

/-- most specific first; first non-zero wins; else the default -/
def firstNonZero : List Int → Int → Int
  | [], d => d
  | x :: xs, d => if x = 0 then firstNonZero xs d else x

def firstNonEmpty : List String → String → String
  | [], d => d
  | x :: xs, d => if x = "" then firstNonEmpty xs d else x

/-- levels → list, `none` levels contribute nothing -/
def lv (f : Level → α) (s b : Level) (g : Option Level) : List α :=
  [f s, f b] ++ (g.map f).toList

/-- the resolved header according to the statement of the property -/
def resolved (s b : Level) (g : Option Level) : Header :=
  { nameRow  := firstNonZero (lv (·.namerow) s b g) 1
    typeRow  := firstNonZero (lv (·.typerow) s b g) 2
    noteRow  := firstNonZero (lv (·.noterow) s b g) 3
    dataRow  := firstNonZero (lv (·.datarow) s b g) 4
    nameLine := firstNonZero (lv (·.nameline) s b g) 0
    typeLine := firstNonZero (lv (·.typeline) s b g) 0
    sep      := firstNonEmpty (lv (·.sep) s b g) ","
    subsep   := firstNonEmpty (lv (·.subsep) s b g) ":" }

/-- executable oracle: does an observed header equal the specified one? -/
def holdsMerge (s b : Level) (g : Option Level) (obs : Header) : Bool :=
  decide (obs = resolved s b g)

def holdsFieldSep (f s b : String) (obs : String) : Bool :=
  decide (obs = firstNonEmpty [f, s, b] ",")

def holdsFieldSubsep (f s b : String) (obs : String) : Bool :=
  decide (obs = firstNonEmpty [f, s, b] ":")

/-- "protogen and confgen resolve identically": the header confgen derives from what was
recorded must be the header protogen used (which must be the specified one). -/
def holdsAgree (sheetMeta : Level) (bookMeta g : Option Level) (confgenObs protogenObs : Header) : Bool :=
  decide (confgenObs = protogenObs) && decide (protogenObs = resolved sheetMeta (bookMeta.getD {}) g)

end TableauVerif.Spec.C14
