/-
Specification of C18 (cleanup part): a full protogen run removes stale `.proto` files only at the top
level of its proto output directory and never a file configured as an import, however spelled.
-/
import TableauVerif.Model.Path
namespace TableauVerif.Spec.C18
open TableauVerif TableauVerif.Model.Path

/-- the top-level file an import spelling denotes (none if it lies in a sub-directory or outside) -/
def importTarget (spelling : Str) : Option Str :=
  let c := clean spelling
  if c.contains slash || c == [dot] || c == [dot, dot] then none else some c

/-- must a top-level entry survive the cleanup? -/
def mustKeep (imports : List Str) (name : Str) : Bool :=
  !(hasSuffix name protoExt) || imports.any (fun sp => importTarget sp == some name)

def holdsPrep (imports : List Str) (before after : List Str) : Bool :=
  -- exactly the entries that must be kept are left; nothing is created
  after == (before.filter (mustKeep imports))

end TableauVerif.Spec.C18
