/-
Specification of C03 for the fraction and comparator kinds, written independently of the parser model.

fraction literal  ::= I | I '/' I | I '%' | I '‰' | I '‱'        (I a decimal int32)
comparator literal ::= ('==' | '!=' | '<' | '<=' | '>' | '>=') fraction

Partition of the cell-string space:
  must-accept with denotation: every part a canonical decimal int32 (`-`? digits, no leading zeros), no blanks;
  must-reject: the text (trimmed) does not have that shape even leniently, or a part is outside int32;
  unspecified: the shape is right but a part is written non-canonically (`+1`, `007`, blanks inside a comparator).
-/
import TableauVerif.Spec.C03
import TableauVerif.Model.Fraction
namespace TableauVerif.Spec.C03
open TableauVerif TableauVerif.Model.Literal TableauVerif.Model.Fraction

inductive IntClass where
  | canonical (n : Int)     -- canonical text of an int32
  | lenient                 -- sign? digits+, value in int32, not canonical
  | outOfRange              -- sign? digits+, value outside int32
  | notInt
deriving DecidableEq, Repr

def classifyInt (s : Str) : IntClass :=
  let (neg, body) : Bool × Str := match s with
    | 45 :: r => (true, r)
    | 43 :: r => (false, r)
    | _ => (false, s)
  match Str.parseNat body with
  | none => .notInt
  | some m =>
    let v : Int := if neg then -(m : Int) else (m : Int)
    if !(minInt32 ≤ v && v ≤ maxInt32) then .outOfRange
    else if decimalInt v == s then .canonical v else .lenient

inductive FracClass where
  | accept (num den : Int)
  | reject
  | unspec
deriving DecidableEq, Repr

def combine (a b : IntClass) : FracClass :=
  match a, b with
  | .canonical n, .canonical d => .accept n d
  | .notInt, _ => .reject
  | _, .notInt => .reject
  | .outOfRange, _ => .reject
  | _, .outOfRange => .reject
  | _, _ => .unspec

/-- a trimmed, non-empty text -/
def fracClassBody (s : Str) : FracClass :=
  if s.getLast? == some 37 then combine (classifyInt s.dropLast) (.canonical 100)
  else if s.getLast? == some perMille then combine (classifyInt s.dropLast) (.canonical 1000)
  else if s.getLast? == some perTenThousand then combine (classifyInt s.dropLast) (.canonical 10000)
  else
    match Str.splitOn 47 s with
    | [a] => combine (classifyInt a) (.canonical 1)
    | [a, b] => combine (classifyInt a) (classifyInt b)
    | _ => .reject           -- more than one slash

def holdsFrac (raw : Str) (obs : FRes) : Verdict :=
  let v := trimSpace raw
  if v.isEmpty then (if obs == .absent then .holds else .fails)
  else
    match fracClassBody v with
    | .accept n d => if v == raw then (if obs == .ok n d then .holds else .fails) else (match obs with | .ok n' d' => if n' == n && d' == d then .holds else .fails | _ => .unspec)
    | .reject => (match obs with | .err _ => .holds | _ => .fails)
    | .unspec => .unspec

def isNumStart (c : Nat) : Bool := Str.isDigit c || c == 45 || c == 43

def holdsCmp (raw : Str) (obs : CRes) : Verdict :=
  let v := trimSpace raw
  if v.isEmpty then (if obs == .absent then .holds else .fails)
  else
    let signPart := v.takeWhile (fun c => !isNumStart c)
    let rest := v.dropWhile (fun c => !isNumStart c)
    match signOf (trimSpace signPart) with
    | none => (match obs with | .err _ => .holds | _ => .fails)
    | some sg =>
      match fracClassBody (trimSpace rest) with
      | .accept n d =>
        let spaced := v != raw || trimSpace signPart != signPart || trimSpace rest != rest
        (match obs with
          | .ok sg' n' d' => if sg' == sg && n' == n && d' == d then .holds else .fails
          | _ => if spaced then .unspec else .fails)
      | .reject => (match obs with | .err _ => .holds | _ => .fails)
      | .unspec => .unspec

end TableauVerif.Spec.C03
