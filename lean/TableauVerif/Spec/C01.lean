/-
Specification of C01 (sheet data fidelity), independent of the parser: the documented way of WRITING
a message as a worksheet. `write` lays a (canonical, well-typed) message out as header + data rows;
the property says converting that sheet gives back exactly the message.

Layout rules (documentation of the type DSL):
* scalar / in-cell aggregate: one cell in the first row of the (sub)message's block;
* cross-cell struct: its fields' columns, prefixed with the struct's column name;
* horizontal list/map: columns `<Name><i>…`, element i in the first row;
* vertical map / keyed list: one block of rows per entry; the key is repeated on every row of the
  block (continuation rows extend the entry); nested vertical aggregates nest their blocks;
* vertical (unkeyed) list: one row per element.
-/
import TableauVerif.Model.TableParser
namespace TableauVerif.Spec.C01
open TableauVerif TableauVerif.Val TableauVerif.Model.TableParser

abbrev RowAssoc := List (Str × Str)      -- column name ↦ cell text (blank cells omitted)

def scalarText (k : SKind) (v : Option Val) : Str :=
  match k, v with
  | .bool, some (.int 1) => Str.ofString "true"
  | .bool, some (.int _) => Str.ofString "false"
  | .bool, _ => []
  | .string, some (.str s) => s
  | .string, _ => []
  | _, some (.int i) => if i < 0 then 45 :: Str.decimal i.natAbs else Str.decimal i.natAbs
  | _, _ => []

def joinWith (sep : Str) : List Str → Str
  | [] => []
  | [x] => x
  | x :: rest => x ++ sep ++ joinWith sep rest

def isVertical (f : TField) : Bool :=
  match f.card, f.layout with
  | .map, .dflt | .map, .vertical | .list, .vertical => true
  | _, _ => false

/-- in-cell struct text: the parts of all fields up to the last non-blank one -/
def incellStructText (sub : List TField) (m : Msg) (sep : Str) : Str :=
  let parts := sub.map fun s => match s.kind with | some k => scalarText k (getF m s.num) | none => []
  let trimmed := (parts.reverse.dropWhile (·.isEmpty)).reverse
  joinWith sep trimmed

/-- zip-longest of blocks of rows -/
def zipRows : List RowAssoc → List RowAssoc → List RowAssoc
  | [], bs => bs
  | as, [] => as
  | a :: as, b :: bs => (a ++ b) :: zipRows as bs

/-- the blocks of a vertical aggregate, one per entry; the key column is filled on every row of a block -/
def entryBlocks (writeOne : Msg → List RowAssoc) (keyCol : Option Str) : List Val → List (List RowAssoc)
  | [] => []
  | .msg em :: rest =>
    let block := writeOne em
    let keyText : Str := match keyCol with
      | none => []
      | some kc => ((block.head?.getD []).find? (·.1 == kc)).map (·.2) |>.getD []
    let block' := match keyCol with
      | none => block
      | some kc => block.map fun r => if r.any (·.1 == kc) || keyText.isEmpty then r else (kc, keyText) :: r
    block' :: entryBlocks writeOne keyCol rest
  | _ :: rest => entryBlocks writeOne keyCol rest

/-- blocks concatenated. With `defer` (keyed aggregates only) the LAST row of every multi-row block is
moved after all blocks: a continuation row need not be adjacent to the row that opened its entry. -/
def writeBlocks (defer : Bool) (writeOne : Msg → List RowAssoc) (keyCol : Option Str) (vs : List Val) : List RowAssoc :=
  let blocks := entryBlocks writeOne keyCol vs
  if defer && keyCol.isSome then
    (blocks.map (fun b => if b.length ≥ 2 then b.dropLast else b)).flatten ++
      blocks.filterMap (fun b => if b.length ≥ 2 then b.getLast? else none)
  else blocks.flatten

/-- horizontal elements `col<i>…` in one row -/
def writeElems (elemRow : Val → Str → RowAssoc) (col : Str) : List Val → Nat → RowAssoc
  | [], _ => []
  | e :: rest, i => elemRow e (col ++ Str.decimal i) ++ writeElems elemRow col rest (i + 1)

mutual
  /-- rows of one (sub)message; always at least one row -/
  def writeFields (c : Ctx) (defer : Bool) : List TField → Msg → Str → List RowAssoc
    | [], _, _ => [[]]
    | f :: rest, m, pre => zipRows (writeField c defer f m pre) (writeFields c defer rest m pre)

  def writeField (c : Ctx) (defer : Bool) : TField → Msg → Str → List RowAssoc
    | .mk num name key card layout incellSpan kind keyKind sub prop propSep propSubsep keyProto protoName, m, pre =>
      let f : TField := .mk num name key card layout incellSpan kind keyKind sub prop propSep propSubsep keyProto protoName
      let col := pre ++ name
      let cell (n : Str) (t : Str) : RowAssoc := if t.isEmpty then [] else [(n, t)]
      let elemRow : Val → Str → RowAssoc := fun e ecol =>
        match kind, e with
        | some k, v => cell ecol (scalarText k (some v))
        | none, .msg em =>
          if incellSpan then cell ecol (incellStructText sub em (c.sepOf f))
          else (writeFields c defer sub em ecol).head?.getD []
        | none, _ => []
      match card with
      | .one =>
        match kind with
        | some k => [cell col (scalarText k (getF m num))]
        | none =>
          if incellSpan then [cell col (incellStructText sub (getMsg m num) (c.sepOf f))]
          else writeFields c defer sub (getMsg m num) col
      | .list =>
        let l := getList m num
        match layout with
        | .incell =>
          [cell col (joinWith (c.sepOf f) (l.map fun e => match kind, e with
            | some k, v => scalarText k (some v)
            | none, .msg em => incellStructText sub em (c.subsepOf f)
            | none, _ => []))]
        | .vertical =>
          writeBlocks defer (fun em => writeFields c defer sub em col) (if key.isEmpty then none else some (col ++ key)) l
        | .dflt | .horizontal => [writeElems elemRow col l 1]
      | .map =>
        let es := getMap m num
        match layout with
        | .incell =>
          [cell col (joinWith (c.sepOf f) (es.map fun e =>
            match kind, keyKind with
            | some vk, some kk => scalarText kk (some e.1) ++ c.subsepOf f ++ scalarText vk (some e.2)
            | _, _ => match e.2 with | .msg em => incellStructText sub em (c.subsepOf f) | _ => []))]
        | .dflt | .vertical =>
          writeBlocks defer (fun em => writeFields c defer sub em col) (some (col ++ key)) (es.map (·.2))
        | .horizontal => [writeElems elemRow col (es.map (·.2)) 1]
end

mutual
  /-- header columns, in declaration order; every horizontal aggregate gets `H` element slots -/
  def columnsOf (H : Nat) : List TField → Str → List Str
    | [], _ => []
    | f :: rest, pre => columnsOfField H f pre ++ columnsOf H rest pre

  def columnsOfField (H : Nat) : TField → Str → List Str
    | .mk _ name _ card layout incellSpan kind _ sub _ _ _ _ _, pre =>
      let col := pre ++ name
      match card, layout with
      | .one, _ =>
        (match kind with
         | some _ => [col]
         | none => if incellSpan then [col] else columnsOf H sub col)
      | _, .incell => [col]
      | .list, .vertical | .map, .dflt | .map, .vertical => columnsOf H sub col
      | _, _ =>
        (List.range H).flatMap fun i =>
          let ecol := col ++ Str.decimal (i + 1)
          match kind with
          | some _ => [ecol]
          | none => if incellSpan then [ecol] else columnsOf H sub ecol
end

/-- the worksheet for message `m`: name row, type row, note row, then the data rows -/
def write (c : Ctx) (H : Nat) (fields : List TField) (m : Msg) (defer : Bool := false) : Grid :=
  let cols := columnsOf H fields []
  let rows := writeFields c defer fields m []
  let dataRows := rows.map fun r => cols.map fun n => ((r.find? (·.1 == n)).map (·.2)).getD []
  [cols, cols.map (fun _ => Str.ofString "type"), cols.map (fun _ => Str.ofString "note")] ++ dataRows

/-- every written cell lands in a header column (else `H` was too small for the value) -/
def fits (c : Ctx) (H : Nat) (fields : List TField) (m : Msg) : Bool :=
  let cols := columnsOf H fields []
  (writeFields c false fields m []).all fun r => r.all fun kv => cols.contains kv.1

end TableauVerif.Spec.C01
