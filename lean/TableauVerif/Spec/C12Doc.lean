/-
Specification of C12's uniqueness clause for documents (YAML / XML), independent of the parser model:
a map field declared `unique:true` whose data node states the same key text twice violates the constraint —
the conversion must be rejected. Only this clear case is judged (other spellings of one key, deduced uniqueness,
nested maps: `unspec`). A blank key text states no key (the parser treats such an entry as absent): blank texts
do not count as repeats.
-/
import TableauVerif.Model.DocParser
namespace TableauVerif.Spec.C12Doc
open TableauVerif TableauVerif.Model.TableParser TableauVerif.Model.XmlDoc TableauVerif.Model.DocParser

def hasRepeat : List Str → Bool
  | [] => false
  | x :: xs => xs.contains x || hasRepeat xs

/-- a top-level unique map field of the sheet whose map node repeats a key literally -/
def violated (fields : List TField) (sheet : BNode) : Bool :=
  fields.any fun f =>
    f.card == .map && f.prop.unique == some true &&
    (match findChild (BNode.children sheet) f.name with
     | some n => BNode.kind n == .map && hasRepeat (((BNode.children n).map BNode.name).filter (!·.isEmpty))
     | none => false)

/-- `rejected` = the real parser returned an error -/
def verdict (fields : List TField) (sheet : BNode) (rejected : Bool) : String :=
  if violated fields sheet then (if rejected then "holds" else "FAILS") else "unspec"

end TableauVerif.Spec.C12Doc
