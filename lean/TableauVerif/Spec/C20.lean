/-
Specification of C20 (timestamp part), independent of the parser and of Go's two-guess lookup:
a datetime/date cell denotes a wall clock reading `w`; the stored instant `t` must be one at which the
location SHOWS `w`, i.e. reading the clock at `t` (offset in force at `t`, calendar from days) gives `w`.
-/
import TableauVerif.Model.Time
namespace TableauVerif.Spec.C20
open TableauVerif TableauVerif.Model.Time

/-- what the location's clock shows at instant `t` -/
def shows (z : Zone) (t : Int) : Wall :=
  let l := t + lookupOffset z t
  let days := l / 86400
  let sod := l % 86400
  let c := civilFromDays days
  { y := c.1, mo := c.2.1, d := c.2.2, h := sod / 3600, mi := (sod % 3600) / 60, s := sod % 60 }

/-- documented spellings, exact widths: `yyyy-MM-dd HH:mm:ss`, `yyyy-MM-dd`, `yyyyMMdd` -/
def readSpelling (s : Str) : Option Wall :=
  let digs (xs : Str) : Option Int := if !xs.isEmpty && xs.all Str.isDigit then (Str.parseNat xs).map Int.ofNat else none
  let date (t : Str) : Option (Int × Int × Int) :=
    if t.length = 10 && t.getD 4 0 = 45 && t.getD 7 0 = 45 then
      match digs (t.take 4), digs ((t.drop 5).take 2), digs (t.drop 8) with
      | some y, some m, some d => some (y, m, d)
      | _, _, _ => none
    else if t.length = 8 then
      match digs (t.take 4), digs ((t.drop 4).take 2), digs (t.drop 6) with
      | some y, some m, some d => some (y, m, d)
      | _, _, _ => none
    else none
  if s.length = 19 && s.getD 10 0 = 32 && s.getD 13 0 = 58 && s.getD 16 0 = 58 then
    match date (s.take 10), digs ((s.drop 11).take 2), digs ((s.drop 14).take 2), digs (s.drop 17) with
    | some (y, m, d), some h, some mi, some sec => some { y := y, mo := m, d := d, h := h, mi := mi, s := sec }
    | _, _, _, _ => none
  else match date s with
    | some (y, m, d) => some { y := y, mo := m, d := d }
    | none => none

inductive Verdict | holds | fails | unspec
def Verdict.toString : Verdict → String
  | .holds => "holds" | .fails => "FAILS" | .unspec => "unspec"

/-- is there an instant (within a day of the naive guesses) at which the zone shows `w`? -/
def existsInstant (z : Zone) (w : Wall) : Bool :=
  let base := w.asUTC
  -- candidates: base - off for every offset of the table
  (z.map (·.2)).any fun off => decide (shows z (base - off) = w)

def allowedRune (c : Nat) : Bool := Str.isDigit c || c == 45 || c == 58 || c == 32 || c == 46

def holdsTs (z : Zone) (raw : Str) (obs : TRes) : Verdict :=
  let s := TableauVerif.Model.Literal.trimSpace raw
  if s.isEmpty then .unspec
  else if s.any (fun c => !allowedRune c) then (if obs == .err then .holds else .fails)  -- garbage must be rejected
  else match readSpelling s with
    | none => .unspec
    | some w =>
      if !w.valid then (if obs == .err then .holds else .fails)       -- month 13, Feb 30, 25:00:00 …
      else if w.y < 1 || w.y > 9999 then .unspec
      else if !existsInstant z w then .unspec     -- a wall clock the location never shows (DST gap): outside the statement
      else match obs with
        | .ok t => if shows z t = w then .holds else .fails
        | .err => if 1 < w.y && w.y < 9999 then .fails else .unspec   -- a showable time must be accepted
        | .unmodelled => .unspec

end TableauVerif.Spec.C20
