/-
C17 specification: the documented type-cell grammar, independent of the recognisers.

A type cell is one of
  scalar   T            enum   enum<T>          struct  {S}C | {S(Name)}C | {S}
  list     [E]C | []C   keyed  [E]<C>           map     map<K,V>
each optionally followed by ` *| *{prop}`. `print` writes a cell, `wf` states which component strings
the grammar admits, `classOf`/`componentsOf` say what the cell denotes.
-/
import TableauVerif.Model.Types
namespace TableauVerif.Spec.C17
open TableauVerif TableauVerif.Model.Types

/-- spacing and property suffix: `sp1` blanks, `|`, `sp2` blanks, `{prop}`; no suffix when `prop = []` -/
structure Suffix where
  sp1 : Nat := 0
  sp2 : Nat := 0
  prop : Str := []
deriving DecidableEq, Repr

inductive TExpr where
  | scalar (t : Str) (sfx : Suffix)
  | enum (t : Str) (sfx : Suffix)
  | struct (stype custom col : Str) (sfx : Suffix)
  | list (elem col : Str) (sfx : Suffix)
  | keyed (elem col : Str) (sfx : Suffix)
  | map (key value : Str) (spc : Nat) (sfx : Suffix)
deriving DecidableEq, Repr

def Suffix.print (s : Suffix) : Str :=
  if s.prop.isEmpty then [] else List.replicate s.sp1 32 ++ [124] ++ List.replicate s.sp2 32 ++ [123] ++ s.prop ++ [125]

def print : TExpr → Str
  | .scalar t s => t ++ s.print
  | .enum t s => [101, 110, 117, 109, 60] ++ t ++ [62] ++ s.print
  | .struct st cu col s => [123] ++ st ++ (if cu.isEmpty then [] else [40] ++ cu ++ [41]) ++ [125] ++ col ++ s.print
  | .list e col s => [91] ++ e ++ [93] ++ col ++ s.print
  | .keyed e col s => [91] ++ e ++ [93, 60] ++ col ++ [62] ++ s.print
  | .map k v spc s => [109, 97, 112, 60] ++ k ++ [44] ++ List.replicate spc 32 ++ v ++ [62] ++ s.print

/-- no leading or trailing blank -/
def tight (s : Str) : Bool := s.head? != some 32 && s.getLast? != some 32

def isPathCh (c : Nat) : Bool := isNameCh c || c == 46
/-- a (possibly dotted / predefined) type name -/
def typeName (s : Str) : Bool := !s.isEmpty && s.all isPathCh

def Suffix.wf (s : Suffix) : Bool :=
  s.prop.isEmpty ||
    (s.prop.all (· != 10) && Model.Types.trimSpace s.prop == s.prop)

def wf : TExpr → Bool
  | .scalar t s => typeName t && s.wf
  | .enum t s => typeName t && s.wf
  | .struct st cu col s =>
    !st.isEmpty && st.all isTypeCh && tight st && cu.all isNameCh && col.all isNestedCh && tight col && s.wf
  | .list e col s =>
    e.all (fun c => isNestedCh c && c != 93) && tight e && col.all (fun c => isNestedCh c && c != 93) && tight col && col.head? != some 60 && s.wf
  | .keyed e col s =>
    e.all (fun c => isNestedCh c && c != 93) && tight e && !col.isEmpty && col.all isNestedCh && tight col && s.wf
  | .map k v _ s =>
    !k.isEmpty && k.all isNestedCh && tight k && !v.isEmpty && v.all (fun c => isNestedCh c && c != 44) && tight v && s.wf

def classOf : TExpr → Cls
  | .scalar .. => .scalar
  | .enum .. => .enum
  | .struct .. => .struct
  | .list .. => .list
  | .keyed .. => .keyedList
  | .map .. => .map

def componentsOf : TExpr → List Str
  | .scalar t s => [t, s.prop]
  | .enum t s => [t, s.prop]
  | .struct st cu col s => [st, cu, col, s.prop]
  | .list e col s => [e, col, s.prop]
  | .keyed e col s => [e, col, s.prop]
  | .map k v _ s => [k, v, s.prop]

/-- what the recognisers say about a cell, read the way protogen's `parseField` dispatches:
map, then list (keyed list if that pattern matches too), then struct, otherwise `parseBasicField`:
enum, then scalar -/
def observe (s : Str) : Cls × List Str :=
  match matchMap s with
  | some d => (.map, [d.key, d.value, d.prop])
  | none =>
    match matchList s with
    | some d =>
      match matchKeyedList s with
      | some k => (.keyedList, [k.elem, k.col, k.prop])
      | none => (.list, [d.elem, d.col, d.prop])
    | none =>
      match matchStruct s with
      | some d => (.struct, [d.stype, d.custom, d.col, d.prop])
      | none =>
        match matchEnum s with
        | some d => (.enum, [d.typ, d.prop])
        | none =>
          match matchScalar s with
          | some d => (.scalar, [d.typ, d.prop])
          | none => (.other, [])

end TableauVerif.Spec.C17
