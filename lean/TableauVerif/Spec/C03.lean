/-
Specification of C03 for the integer families and bool, written independently of the parser model.
Partition of the cell-string space per kind:
  must-accept (with denotation) / must-reject / unspecified remainder.
-/
import TableauVerif.Model.Basic
import TableauVerif.Model.Literal
namespace TableauVerif.Spec.C03
open TableauVerif TableauVerif.Model.Literal

/-- canonical decimal text of an integer (what `strconv.FormatInt` prints) -/
def decimalInt (n : Int) : Str :=
  if n < 0 then 45 :: Str.decimal n.natAbs else Str.decimal n.natAbs

def inRange : Kind → Int → Bool
  | .int32, n => minInt32 ≤ n && n ≤ maxInt32
  | .uint32, n => 0 ≤ n && n ≤ maxUint32
  | .int64, n => minInt64 ≤ n && n ≤ maxInt64
  | .uint64, n => 0 ≤ n && n ≤ maxUint64
  | .bool, n => n == 0 || n == 1

/-- canonical reading of `-?digits` without leading zeros -/
def readCanonicalInt (s : Str) : Option Int :=
  let (neg, body) := match s with
    | 45 :: r => (true, r)
    | _ => (false, s)
  match Str.parseNat body with
  | none => none
  | some m =>
    if body.length > 1 && body.head? == some 48 then none      -- leading zero: not canonical
    else if neg && m == 0 then none                            -- "-0": not canonical
    else some (if neg then -(m : Int) else (m : Int))

/-- `-?digits`, leading zeros allowed: the decimal number it states -/
def readPaddedInt (s : Str) : Option Int :=
  let (neg, body) := match s with
    | 45 :: r => (true, r)
    | _ => (false, s)
  (Str.parseNat body).map fun m => if neg then -(m : Int) else (m : Int)

def boolSpellings : List (String × Bool) :=
  [("1", true), ("t", true), ("T", true), ("TRUE", true), ("true", true), ("True", true),
   ("0", false), ("f", false), ("F", false), ("FALSE", false), ("false", false), ("False", false)]

def readBool (s : Str) : Option Bool :=
  (boolSpellings.find? (fun p => Str.ofString p.1 == s)).map (·.2)

/-- `d.0…0` with d ∈ {0,1}: Excel's rendering of a boolean-valued number — left unspecified here -/
def isBoringBool (s : Str) : Bool :=
  match s with
  | d :: 46 :: zs => (d == 48 || d == 49) && !zs.isEmpty && zs.all (· == 48)
  | _ => false

/-- alphabet of Go numeric literals (decimal and hex floats, separators) -/
def inNumAlphabet (c : Nat) : Bool :=
  Str.isDigit c || c == 43 || c == 45 || c == 46 || c == 95 ||
  (let l := lower c; (97 ≤ l && l ≤ 102) || l == 120 || l == 112)

/-- must-accept: canonical literal in range ↦ its denotation -/
def mustAccept (k : Kind) (s : Str) : Option Int :=
  match k with
  | .bool => (readBool s).map (fun b => if b then 1 else 0)
  | _ => match readCanonicalInt s with
    | some n => if inRange k n then some n else none
    | none => none

/-- must-reject (on trimmed, non-empty text) -/
def mustReject (k : Kind) (s : Str) : Bool :=
  match k with
  | .bool => (readBool s).isNone && !isBoringBool s
  | _ =>
    -- (a) no decimal digit at all (covers nan / inf / infinity in any case and sign)
    !s.any Str.isDigit ||
    -- (b) a rune that cannot occur in any numeric literal (leading/trailing garbage, inner blanks, "nan", "inf")
    s.any (fun c => !inNumAlphabet c) ||
    -- (c) a canonical integer literal outside the kind's range
    (match readCanonicalInt s with | some n => !inRange k n | none => false)

inductive Verdict | holds | fails | unspec
def Verdict.toString : Verdict → String
  | .holds => "holds" | .fails => "FAILS" | .unspec => "unspec"

/-- the oracle: judges an observation (of the model or of the implementation) of parsing `raw` -/
def holds (k : Kind) (raw : Str) (obs : Res) : Verdict :=
  let s := trimSpace raw
  if s.isEmpty then (if obs == .absent then .holds else .fails)     -- empty cell = absent, never an error
  else match mustAccept k s with
    | some v => if obs == .ok v then .holds else .fails
    | none =>
      if mustReject k s then (match obs with | .err _ => .holds | _ => .fails)
      else
        -- the remainder is not asserted on, with one exception that needs no reading of the documentation: a text
        -- made of decimal digits only (zero-padded: `010`, `-017`) states a number; whether such a cell is accepted
        -- is left open, but if it is, the stored value must be that number (not, say, its octal reading)
        match k, readPaddedInt s, obs with
        | .bool, _, _ => .unspec
        | _, some n, .ok v => if v == n then .holds else .fails
        | _, _, _ => .unspec

end TableauVerif.Spec.C03
