/-
C15 specification: what "the existing schema is unchanged" means for the parsed fields of a worksheet.

`extendsBy old new`: every existing field is still there at the same position (hence the same tag number:
the exporter numbers fields by position, `tagid := i + 1`), with the same name, type, options and
map/list entry types, and its sub-fields are extended in the same sense; new fields may only be appended
after the existing ones, at any depth.
-/
import TableauVerif.Model.Protogen
namespace TableauVerif.Spec.C15
open TableauVerif TableauVerif.Model.Protogen

mutual
/-- one existing field against its new version -/
def sameField : PField → PField → Bool
  | ⟨n1, t1, f1, p1, on1, ok1, l1, s1, pr1, me1, le1, fs1⟩, ⟨n2, t2, f2, p2, on2, ok2, l2, s2, pr2, me2, le2, fs2⟩ =>
    n1 == n2 && t1 == t2 && f1 == f2 && p1 == p2 && on1 == on2 && ok1 == ok2 && l1 == l2 && s1 == s2 &&
    pr1 == pr2 && me1 == me2 && le1 == le2 && extendsBy fs1 fs2
/-- the old field list is a prefix of the new one, field by field -/
def extendsBy : List PField → List PField → Bool
  | [], _ => true
  | _ :: _, [] => false
  | a :: as, b :: bs => sameField a b && extendsBy as bs
end

end TableauVerif.Spec.C15
