/-
Specification of C13 (documented patch semantics), written independently of the model's fold:
the result is described FIELD BY FIELD through lookups, not as a sequence of updates.

  * a field not populated in the patch keeps dst's value;
  * PATCH_REPLACE: the field is cleared before the patch value is applied;
  * scalar: overwritten; message: patched recursively; list: elements appended (message elements as
    patched copies of an empty element); map: per key — message values merged into the existing
    entry, others overwritten; keys only in dst kept.
-/
import TableauVerif.Model.Val
namespace TableauVerif.Spec.C13
open TableauVerif TableauVerif.Val

def asList : Option Val → List Val | some (.list l) => l | _ => []
def asMap : Option Val → List (Val × Val) | some (.map l) => l | _ => []
def asMsg : Option Val → List (Nat × Val) | some (.msg l) => l | _ => []

/-- sorted-by-key union of two entry lists given as a set of keys to visit -/
def insertKey (k : Val) : List Val → List Val
  | [] => [k]
  | x :: xs => if keyLt k x then k :: x :: xs else if keyEq k x then x :: xs else x :: insertKey k xs

mutual
  /-- the patched message, field by field in descriptor order (descriptors list fields by ascending number) -/
  def specFields : List FieldDesc → List (Nat × Val) → List (Nat × Val) → List (Nat × Val)
    | [], _, _ => []
    | (.mk num card repl isMsg sub) :: rest, dst, src =>
      let old := getF dst num
      let tail := specFields rest dst src
      match getF src num with
      | none => (match old with | some o => (num, o) :: tail | none => tail)
      | some v =>
        let base := if repl then none else old
        let nv : Val := match card, v with
          | .one, .msg vfs => if isMsg then .msg (specFields sub (asMsg base) vfs) else v
          | .one, _ => v
          | .list, .list svs => .list (asList base ++ (if isMsg then specElems sub svs else svs))
          | .map, .map ses =>
              if isMsg then
                let keys := ses.foldl (fun acc e => insertKey e.1 acc) ((asMap base).map (·.1))
                .map (specEntries sub (asMap base) ses keys)
              else
                let keys := ses.foldl (fun acc e => insertKey e.1 acc) ((asMap base).map (·.1))
                .map (keys.filterMap fun k => match getE ses k with
                  | some sv => some (k, sv)
                  | none => (getE (asMap base) k).map (fun ov => (k, ov)))
          | _, _ => v
        (num, nv) :: tail

  def specElems (sub : List FieldDesc) : List Val → List Val
    | [] => []
    | .msg efs :: rest => .msg (specFields sub [] efs) :: specElems sub rest
    | v :: rest => v :: specElems sub rest

  /-- message-valued map: for every key of the union -/
  def specEntries (sub : List FieldDesc) (base src : List (Val × Val)) : List Val → List (Val × Val)
    | [] => []
    | k :: ks =>
      let tl := specEntries sub base src ks
      match getE src k with
      | some (.msg vfs) => (k, .msg (specFields sub (asMsg (getE base k)) vfs)) :: tl
      | some sv => (k, sv) :: tl
      | none => match getE base k with
        | some ov => (k, ov) :: tl
        | none => tl
end

def expected (d : List FieldDesc) (dst src : Val) : Val :=
  match dst, src with
  | .msg dfs, .msg sfs => .msg (specFields d dfs sfs)
  | _, _ => dst

/-! ### `load.Load`: which files count, in which order (documentation of `load.Mode`, `PatchDirs`, `PatchPaths`) -/

/-- the message a loader obtains: `ptype` 0 none / 1 replace / 2 merge, `mode` 0 all / 1 only-main / 2 only-patch;
`patches` in the given order, `none` for a file that does not exist -/
def loadExpected (d : List FieldDesc) (ptype mode : Nat) (main : Val) (patches : List (Option Val)) : Val :=
  let existing := patches.filterMap id
  if ptype == 0 || mode == 1 then main                                   -- no patching / patch files ignored
  else if existing.isEmpty then (if mode == 2 then .msg [] else main)     -- nothing to apply
  else if ptype == 1 then existing.getLast?.getD main                     -- replace: the last patch file alone
  else existing.foldl (expected d) (if mode == 2 then .msg [] else main)  -- merge: applied in the given order

end TableauVerif.Spec.C13
