def hello := "world"
