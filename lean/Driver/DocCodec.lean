/-
Driver ops for the document parser model (C09).
-/
import Driver.TPCodec
import Driver.PGCodec
import TableauVerif.Model.DocParser
import TableauVerif.Spec.C12Doc
namespace Driver
open TableauVerif TableauVerif.Model TableauVerif.Model.XmlDoc TableauVerif.Model.TableParser

def decNKind? : String → Option NKind
  | "0" => some .scalar | "1" => some .list | "2" => some .map | _ => none

/-- `(kind|name|value|children)` -/
partial def parseBNodes (cs : List Char) (acc : List BNode) : Option (List BNode × List Char) :=
  match cs with
  | '(' :: rest =>
    let (k, r1) := takeAtomP rest []
    match r1 with
    | '|' :: r2 =>
      let (n, r3) := takeAtomP r2 []
      match r3 with
      | '|' :: r4 =>
        let (v, r5) := takeAtomP r4 []
        match r5 with
        | '|' :: r6 =>
          match parseBNodes r6 [] with
          | some (kids, ')' :: r7) =>
            match decNKind? (String.ofList k), decStr? (String.ofList n), decStr? (String.ofList v) with
            | some kk, some nn, some vv => parseBNodes r7 (BNode.mk kk nn vv kids :: acc)
            | _, _, _ => none
          | _ => none
        | _ => none
      | _ => none
    | _ => none
  | _ => some (acc.reverse, cs)
where
  takeAtomP : List Char → List Char → List Char × List Char
    | [], acc => (acc.reverse, [])
    | c :: cs, acc => if c == '|' || c == '(' || c == ')' then (acc.reverse, c :: cs) else takeAtomP cs (c :: acc)

def doc (fn : String) (a : List String) : Option String := do
  match fn, a with
  | "doc.parse", [opts, desc, tree] =>
    let o ← decTPOpts? opts
    let d ← decTDescArg? desc
    match parseBNodes tree.toList [] with
    | some ([root], []) =>
      let c := { o.ctx with tableFormat := false }
      match DocParser.parse c d (BNode.mk .map [] [] [root]) with
      | .ok m => some ("ok " ++ " ".intercalate (encValRunes (.msg m)))
      | .error e => some (if e.code == unmodelledCode then "unmodelled" else s!"err {e.code}")
    | _ => none
  | "o.doc.parse", [_opts, desc, tree, obs] =>
    let d ← decTDescArg? desc
    match parseBNodes tree.toList [] with
    | some ([root], []) => some (Spec.C12Doc.verdict d root (obs.startsWith "err"))
    | _ => none
  | _, _ => none

end Driver
