/-
Driver ops for the type DSL recognisers (C17) and the protogen header model (C15/C02/C17).
-/
import Driver.Proto
import TableauVerif.Model.Types
import TableauVerif.Model.Protogen
import TableauVerif.Spec.C17
import TableauVerif.Spec.C15
import TableauVerif.Spec.C07
import TableauVerif.Model.XmlDoc
namespace Driver
open TableauVerif TableauVerif.Model TableauVerif.Model.Types TableauVerif.Model.Protogen

def encParts (l : List Str) : String := ",".intercalate (l.map encStr)

def renderMatch (s : Str) : String :=
  let m := match matchMap s with | some d => encParts [d.key, d.value, d.prop] | none => "-"
  let l := match matchList s with | some d => encParts [d.elem, d.col, d.prop] | none => "-"
  let k := match matchKeyedList s with | some d => encParts [d.elem, d.col, d.prop] | none => "-"
  let st := match matchStruct s with | some d => encParts [d.stype, d.custom, d.col, d.prop] | none => "-"
  let e := match matchEnum s with | some d => encParts [d.typ, d.prop] | none => "-"
  let sc := match matchScalar s with | some d => encParts [d.typ, d.prop] | none => "-"
  s!"map={m};list={l};keyed={k};struct={st};enum={e};scalar={sc};prop={encStr (matchProp s)}"

def encLayout : PLayout → String
  | .dflt => "0" | .vertical => "1" | .horizontal => "2" | .incell => "3"

def encProp : PropV → String
  | none => "nil"
  | some [] => "nil"
  | some ps => ",".intercalate (ps.map (fun (n, v) => s!"{n}={encStr v}"))

mutual
def renderField : PField → String
  | ⟨name, typ, full, pre, on, ok, lay, span, prop, me, le, fs⟩ =>
    let mes := match me with | some (a, b, c) => encParts [a, b, c] | none => "-"
    let les := match le with | some (a, b) => encParts [a, b] | none => "-"
    "{" ++ "|".intercalate [encStr name, encStr typ, encStr full, encBool pre, encStr on, encStr ok, encLayout lay,
      encBool span, encProp prop, mes, les] ++ "|[" ++ renderFields fs ++ "]}"
def renderFields : List PField → String
  | [] => ""
  | f :: fs => renderField f ++ renderFields fs
end

def decTKind? (s : String) : Option Kind :=
  match s with
  | "0" => some .scalar | "1" => some .enum | "2" => some .list | "3" => some .map | "4" => some .message
  | _ => none

def decInfos? (s : String) : Option (List TypeInfo) :=
  if s.isEmpty then some [] else
  (s.splitOn ",").mapM fun e =>
    match e.splitOn ":" with
    | [f, k, o] => do some ⟨← decStr? f, ← decTKind? k, ← decStr? o⟩
    | _ => none

def decRow? (s : String) : Option (List Str) :=
  if s.isEmpty then some [] else (s.splitOn ",").mapM decStr?

def renderRes (r : PRes (List PField)) : String :=
  match r with
  | .ok fs => "ok " ++ renderFields fs
  | .error (.err _ (some cur)) => s!"err {cur}"
  | .error (.err _ none) => "err ?"
  | .error .unmodelled => "unmodelled"
  | .error .fuel => "unmodelled"

/-! ### reading rendered fields back (for oracles over implementation observations) -/

def decLayout? : String → Option PLayout
  | "0" => some .dflt | "1" => some .vertical | "2" => some .horizontal | "3" => some .incell | _ => none

def decProp? (s : String) : Option PropV :=
  if s == "nil" then some none else
  ((s.splitOn ",").mapM fun (e : String) =>
    match e.splitOn "=" with
    | [n, v] => (do some ((← decNat? n), (← decStr? v)) : Option (Nat × Str))
    | _ => none).map some

def decTriple? (s : String) : Option (Option (Str × Str × Str)) :=
  if s == "-" then some none else
  match s.splitOn "," with
  | [a, b, c] => do some (some ((← decStr? a), (← decStr? b), (← decStr? c)))
  | _ => none

def decPair? (s : String) : Option (Option (Str × Str)) :=
  if s == "-" then some none else
  match s.splitOn "," with
  | [a, b] => do some (some ((← decStr? a), (← decStr? b)))
  | _ => none

/-- take characters up to (not including) the first of the stop characters -/
def takeAtom : List Char → List Char → List Char × List Char
  | [], acc => (acc.reverse, [])
  | c :: cs, acc => if c == '|' || c == '{' || c == '}' || c == '[' || c == ']' then (acc.reverse, c :: cs) else takeAtom cs (c :: acc)

/-- eleven atoms separated by `|` -/
def takeAtoms : Nat → List Char → List String → Option (List String × List Char)
  | 0, cs, acc => some (acc.reverse, cs)
  | n + 1, cs, acc =>
    let (a, rest) := takeAtom cs []
    match rest with
    | '|' :: rest' => takeAtoms n rest' (String.ofList a :: acc)
    | _ => none

partial def parseFieldsR (cs : List Char) (acc : List PField) : Option (List PField × List Char) :=
  match cs with
  | '{' :: rest =>
    match takeAtoms 11 rest [] with
    | some ([name, typ, full, pre, on, ok, lay, span, prop, me, le], '[' :: rest2) =>
      match parseFieldsR rest2 [] with
      | some (subs, ']' :: '}' :: rest3) =>
        match (do
          let f : PField := { name := ← decStr? name, typ := ← decStr? typ, fullType := ← decStr? full, predefined := ← decBool? pre,
                               optName := ← decStr? on, optKey := ← decStr? ok, layout := ← decLayout? lay, spanInner := ← decBool? span,
                               prop := ← decProp? prop, mapEntry := ← decTriple? me, listEntry := ← decPair? le, fields := subs }
          some f) with
        | some f => parseFieldsR rest3 (f :: acc)
        | none => none
      | _ => none
    | _ => none
  | _ => some (acc.reverse, cs)

/-- an observation `ok <fields>` / `err` back to a result -/
def decPGRes? (s : String) : Option (PRes (List PField)) :=
  if s.startsWith "err" then some (.error (.err "impl")) else
  if s == "unmodelled" then some (.error .unmodelled) else
  if s.startsWith "ok " then
    match parseFieldsR (s.drop 3).toString.toList [] with
    | some (fs, []) => some (.ok fs)
    | _ => none
  else none

/-! ### XML element trees -/
open TableauVerif.Model.XmlDoc in
partial def parseXNodes (cs : List Char) (acc : List XNode) : Option (List XNode × List Char) :=
  match cs with
  | '<' :: rest =>
    let (nameS, r1) := takeAtom rest []
    match r1 with
    | '|' :: r2 =>
      let (attrS, r3) := takeAtom r2 []
      match r3 with
      | '|' :: r4 =>
        let (textS, r5) := takeAtom r4 []
        match r5 with
        | '|' :: '[' :: r6 =>
          match parseXNodes r6 [] with
          | some (kids, ']' :: '>' :: r7) =>
            let attrs? : Option (List (Str × Str)) :=
              if attrS.isEmpty then some [] else
              ((String.ofList attrS).splitOn ",").mapM fun (e : String) =>
                match e.splitOn "=" with
                | [n, v] => (do some ((← decStr? n), (← decStr? v)) : Option (Str × Str))
                | _ => none
            match decStr? (String.ofList nameS), attrs?, decStr? (String.ofList textS) with
            | some n, some a, some t => parseXNodes r7 (XNode.mk n a t kids :: acc)
            | _, _, _ => none
          | _ => none
        | _ => none
      | _ => none
    | _ => none
  | _ => some (acc.reverse, cs)

open TableauVerif.Model.XmlDoc in
def encNKind : NKind → String
  | .scalar => "0" | .list => "1" | .map => "2"

open TableauVerif.Model.XmlDoc in
mutual
def renderBNode : BNode → String
  | .mk k n v cs => "(" ++ encNKind k ++ "|" ++ encStr n ++ "|" ++ encStr v ++ "|" ++ renderBNodes cs ++ ")"
def renderBNodes : List BNode → String
  | [] => ""
  | b :: bs => renderBNode b ++ renderBNodes bs
end

def clsName : Cls → String
  | .map => "map" | .keyedList => "keyed" | .list => "list" | .struct => "struct" | .enum => "enum" | .scalar => "scalar"
  | .other => "other"

def decSuffix? (a b c : String) : Option Spec.C17.Suffix := do
  some ⟨← decNat? a, ← decNat? b, ← decStr? c⟩

def decTExpr? (s : String) : Option Spec.C17.TExpr :=
  match s.splitOn ":" with
  | ["scalar", t, a, b, c] => do some (.scalar (← decStr? t) (← decSuffix? a b c))
  | ["enum", t, a, b, c] => do some (.enum (← decStr? t) (← decSuffix? a b c))
  | ["struct", st, cu, col, a, b, c] => do some (.struct (← decStr? st) (← decStr? cu) (← decStr? col) (← decSuffix? a b c))
  | ["list", e, col, a, b, c] => do some (.list (← decStr? e) (← decStr? col) (← decSuffix? a b c))
  | ["keyed", e, col, a, b, c] => do some (.keyed (← decStr? e) (← decStr? col) (← decSuffix? a b c))
  | ["map", k, v, spc, a, b, c] => do some (.map (← decStr? k) (← decStr? v) (← decNat? spc) (← decSuffix? a b c))
  | _ => none

/-- read an implementation observation `<class> <components>` -/
def observed (obs : String) : Option (String × List Str) :=
  match obs.splitOn " " with
  | [cls, comps] => if comps.isEmpty then some (cls, []) else ((comps.splitOn ",").mapM decStr?).map (cls, ·)
  | _ => none

def pg (fn : String) (a : List String) : Option String := do
  match fn, a with
  | "c17.match", [t] => some (renderMatch (← decStr? t))
  | "c17.first", [n, p] => some (encBool (belongToFirstElement (← decStr? n) (← decStr? p)))
  | "c17.desc", [r] =>
    let d := Types.parseTypeDescriptor (← decStr? r)
    some s!"{encStr d.name} {encStr d.fullName} {encBool d.predefined} {d.kind.toNat}"
  | "c17.snake", [s] => some (encStr (toSnake (← decStr? s)))
  | "pg.header", [pkg, infos, nested, names, types] =>
    let c : Ctx := ⟨← decStr? pkg, ← decInfos? infos, ← decBool? nested⟩
    some (renderRes (parseSheet c (Header.ofRows (← decRow? names) (← decRow? types))))
  | "pg.errpos", [pkg, infos, nested, names, types, _] =>
    let c : Ctx := ⟨← decStr? pkg, ← decInfos? infos, ← decBool? nested⟩
    match parseSheet c (Header.ofRows (← decRow? names) (← decRow? types)) with
    | .ok _ => some "ok"
    | .error (.err _ (some cur)) => some s!"err {cur}"
    | .error (.err _ none) => some "err ?"
    | .error .unmodelled => some "unmodelled"
    | .error .fuel => some "unmodelled"
  | "pg.e2epos", [pkg, infos, nested, names, types, _] =>
    -- the same header through the REAL GenProto (NameCellPos of the rejection, decoded to a column index); headers that
    -- name predefined types are skipped (the run has no such types)
    let ts ← decRow? types
    if ts.any (fun t => t.contains 46) then some "skip" else
    let c : Ctx := ⟨← decStr? pkg, ← decInfos? infos, ← decBool? nested⟩
    match parseSheet c (Header.ofRows (← decRow? names) ts) with
    | .ok _ => some "ok"
    | .error (.err _ (some cur)) => some s!"err {cur}"
    | .error (.err _ none) => some "err ?"
    | .error .unmodelled => some "unmodelled"
    | .error .fuel => some "unmodelled"
  | "o.pg.e2epos", [_, _, _, _, _, k, obs] =>
    let k ← k.toNat?
    if obs == "skip" then some "unspec" else
    if obs == "ok" then some (Spec.C07.holdsHeaderPos k none).toString else
    match obs.splitOn " " with
    | ["err", c] => (match c.toNat? with
        | some n => some (Spec.C07.holdsHeaderPos k (some n)).toString
        | none => some "FAILS")      -- name cell and type cell of the report are not those of one column
    | _ => some "FAILS"
  | "o.pg.errpos", [_, _, _, _, _, k, obs] =>
    let k ← k.toNat?
    if obs == "ok" then some (Spec.C07.holdsHeaderPos k none).toString else
    match obs.splitOn " " with
    | ["err", c] => some (Spec.C07.holdsHeaderPos k (some (← c.toNat?))).toString
    | _ => none
  | "c15.append", [pkg, infos, nested, names, types, addN, addT] =>
    let c : Ctx := ⟨← decStr? pkg, ← decInfos? infos, ← decBool? nested⟩
    let n ← decRow? names; let t ← decRow? types; let an ← decRow? addN; let at' ← decRow? addT
    -- the type row is padded to the name row's width before appending (columns stay aligned)
    let t := t ++ List.replicate (n.length - t.length) []
    some (renderRes (parseSheet c (Header.ofRows n t)) ++ " ## " ++ renderRes (parseSheet c (Header.ofRows (n ++ an) (t ++ at'))))
  | "o.c15.append", [_, _, _, _, _, _, _, obs] =>
    match obs.splitOn " ## " with
    | [a, b] =>
      match decPGRes? a, decPGRes? b with
      | some (.ok old), some (.ok new) => some (if Spec.C15.extendsBy old new then "holds" else "FAILS")
      | some _, some _ => some "unspec"       -- the old or the extended header is rejected: no schema to compare
      | _, _ => none
    | _ => none
  | "o.c17.cls", [ast, text, obs] =>
    let e ← decTExpr? ast
    let t ← decStr? text
    if Spec.C17.print e != t then some "bad-op" else
    if !Spec.C17.wf e then some "unspec" else
    let (cls, comps) ← observed obs
    some (if cls == clsName (Spec.C17.classOf e) && comps == Spec.C17.componentsOf e then "holds" else "FAILS")
  | "c17.cls", [_, text] =>
    let (cls, comps) := Spec.C17.observe (← decStr? text)
    some s!"{clsName cls} {encParts comps}"
  | "c09.xml2node", [tree] =>
    match parseXNodes tree.toList [] with
    | some ([x], []) =>
      match Model.XmlDoc.toBook x with
      | .ok b => some ("ok " ++ renderBNode b)
      | .error .err => some "err"
      | .error .unmodelled => some "unmodelled"
    | _ => none
  | "c09.doc", _ => some "faithful"           -- the specification of the walker: the message states exactly the document
  | "c09.known", _ => some "faithful"
  | "o.c09.doc", args => some (if (args.getLast?.getD "").startsWith "faithful" then "holds" else "FAILS")
  | "o.c09.known", args => some (if (args.getLast?.getD "").startsWith "faithful" then "holds" else "FAILS")
  | "c19.origin", _ => some "same"            -- C19_equal_partial: both paths assemble the same importers and call the same parser
  | "c19.yaml", _ => some "same"
  | "o.c19.yaml", args => some (if (args.getLast?.getD "").startsWith "same" then "holds" else "FAILS")
  | "o.c19.origin", args => some (if (args.getLast?.getD "").startsWith "same" then "holds" else "FAILS")
  | "c02.closure", _ => some "closed"         -- protogen's accepted headers: see DESIGN.md C02 (model: header parser + option round trip)
  | "c02.known", _ => some "closed"
  | "o.c02.closure", args => some (if (args.getLast?.getD "").startsWith "closed" then "holds" else "FAILS")
  | "o.c02.known", args => some (if (args.getLast?.getD "").startsWith "closed" then "holds" else "FAILS")
  | "c15.versions", _ => some "same"          -- C15: the schema is a function of the header rows; appends extend it
  | "c15.known", _ => some "same"
  | "o.c15.versions", args => some (if (args.getLast?.getD "").startsWith "same" then "holds" else "FAILS")
  | "o.c15.known", args => some (if (args.getLast?.getD "").startsWith "same" then "holds" else "FAILS")
  | "c08.twin", _ => some "same"              -- C08_* + C10c: the pipeline does not see what the containers differ in
  | "c08.known", _ => some "same"
  | "o.c08.twin", args => some (if (args.getLast?.getD "").startsWith "same" then "holds" else "FAILS")
  | "o.c08.known", args => some (if (args.getLast?.getD "").startsWith "same" then "holds" else "FAILS")
  | "c17.fuzz", [_] => some "returned"          -- the models are total functions: every input yields a result or an error
  | "c17.cross", _ => some "returned"
  | "o.c17.cross", args => some (if args.getLast? == some "returned" then "holds" else "FAILS")
  | "c03.reject", _ => some "rejected"     -- C03: a cell that is no literal of its column's type fails the worksheet
  | "o.c03.reject", args =>
    let obs := args.getLast?.getD ""
    some (if obs.startsWith "rejected" then "holds" else if obs.startsWith "unspec" then "unspec" else "FAILS")
  | "c12.refer", [ids, vals, _, _, _, _] =>
    -- C12 (refer): accepted iff every referring value occurs in the referred column (primary and merged books)
    let idl := (ids.splitOn "/").flatMap (fun p => if p.isEmpty then [] else p.splitOn ".")
    let vl := if vals.isEmpty then [] else vals.splitOn "."
    some (if vl.all (fun v => idl.contains v) then "ok" else "err 2002")
  | "o.c12.refer", [ids, vals, _, _, _, _, obs] =>
    let idl := (ids.splitOn "/").flatMap (fun p => if p.isEmpty then [] else p.splitOn ".")
    let vl := if vals.isEmpty then [] else vals.splitOn "."
    some (if obs == (if vl.all (fun v => idl.contains v) then "ok" else "err 2002") then "holds" else "FAILS")
  | "c13.dry", _ => some "same"      -- the preview of an overlay is a function of the main sheet and that overlay alone
  | "o.c13.dry", args => some (if (args.getLast?.getD "").startsWith "same" then "holds" else "FAILS")
  | "c10.schema", _ => some "same"     -- C10a: the schema and the conf of a sheet and of its transposed form coincide
  | "o.c10.schema", args => some (if (args.getLast?.getD "").startsWith "same" then "holds" else "FAILS")
  | "c17.docfuzz", _ => some "returned"
  | "o.c17.docfuzz", [_, obs] => some (if obs == "returned" then "holds" else "FAILS")
  | "o.c17.fuzz", [_, obs] => some (if obs == "returned" then "holds" else "FAILS")
  | _, _ => none

end Driver
