/-
Fast evaluation (interpreter, not a proof) of the lock-discipline predicates over the REGENERATED lock
programs. `./check C05` runs it before building `Props/C05.lean`: when a predicate is false the kernel proof
would fail only after minutes, so the obligation is reported broken right away and the proof is not attempted.
When every predicate evaluates to true the theorems are checked by the kernel as usual.
-/
import TableauVerif.Model.Conc
import TableauVerif.Generated.Locks
open TableauVerif.Model.Conc TableauVerif.Generated

def main : IO Unit := do
  IO.println s!"balanced={balanced Locks.funcs}"
  IO.println s!"holdsAtMostOne={holdsAtMostOne Locks.funcs}"
  IO.println s!"noLockedCallAcquires={noLockedCallAcquires Locks.funcs}"
  IO.println s!"noLockAcrossWait={noLockAcrossWait Locks.funcs}"
