/-
Driver ops for the merger stream (see harness/cmd/vh/s_c11.go).
  c11.merge <shape> <nbooks> <rows of book1;rows of book2;…> <dup: id@book | ->
-/
import Driver.Proto
import TableauVerif.Model.TableParser
import TableauVerif.Model.Sheets
namespace Driver
open TableauVerif TableauVerif.Model TableauVerif.Model.TableParser

structure MRow where
  id : String
  name : String

/-- rows per book, with the duplicate row placed as the harness places it -/
def decMergeCase? (nbooksS parts dupS : String) : Option (List (List MRow)) := do
  let nbooks ← decNat? nbooksS
  let books := (parts.splitOn ";").map fun part =>
    if part.isEmpty then [] else (part.splitOn ",").filterMap fun rs =>
      match rs.splitOn ":" with
      | id :: name :: _ => some ({ id := id, name := name } : MRow)
      | _ => none
  if books.length != nbooks then none
  if dupS == "-" then some books else
  match dupS.splitOn "@" with
  | [id, bS] => do
    let b ← decNat? bS
    let owner := (books.zipIdx.find? (fun (rows, _) => rows.any (·.id == id))).map (·.2)
    let b' := if owner == some b then (b + 1) % nbooks else b
    some (books.zipIdx.map fun (rows, i) => if i == b' then rows ++ [{ id := id, name := "dup" }] else rows)
  | _ => none

def mergeFields (shape : String) : List TField :=
  let idF : TField := .mk 1 (Str.ofString "ID") [] .one .dflt false (some .uint32) none [] {} [] [] [] (Str.ofString "id")
  let nameF : TField := .mk 2 (Str.ofString "Name") [] .one .dflt false (some .string) none [] {} [] [] [] (Str.ofString "name")
  if shape == "list" then
    [.mk 1 [] (Str.ofString "ID") .list .vertical false none none [idF, nameF] {} [] [] (Str.ofString "id") (Str.ofString "item_list")]
  else
    [.mk 1 [] (Str.ofString "ID") .map .vertical false none none [idF, nameF] {} [] [] (Str.ofString "id") (Str.ofString "item_map")]

def bookGrid (rows : List MRow) : Grid :=
  [[Str.ofString "ID", Str.ofString "Name"], [Str.ofString "t", Str.ofString "t"], [Str.ofString "n", Str.ofString "n"]] ++
    rows.map fun r => [Str.ofString r.id, Str.ofString r.name]

def showItem (v : Val) : String :=
  match v with
  | .msg fs =>
    let id := match Val.getF fs 1 with | some (.int i) => toString i | _ => "0"
    let name := match Val.getF fs 2 with | some (.str s) => Str.toString s | _ => ""
    id ++ "=" ++ name
  | _ => "?"

def showMerged (m : Sheets.Msg) : String :=
  let mp := match Val.getF m 1 with | some (.map es) => es.map (fun (e : Val × Val) => showItem e.2) | _ => []
  let ls := match Val.getF m 1 with | some (.list vs) => vs.map showItem | _ => []
  -- the harness prints map entries sorted as strings "<id>=<name>"
  let sorted := mp.toArray.qsort (· < ·) |>.toList
  "ok map[" ++ ",".intercalate sorted ++ "] list[" ++ ",".intercalate ls ++ "]"

/-! ### c11.spec <m|s|S> <container> <specifiers> <main rows> <books>
  specifiers: `g` | `b<i>` | `s<i>/<Sheet>` joined by `,`;  rows: `<id>:<name>` joined by `.`;
  book: `<Sheet>=<rows>` joined by `&`;  books joined by `;` (Part1, Part2, …) -/

def decRows (s : String) : List MRow :=
  if s.isEmpty then [] else (s.splitOn ".").filterMap fun rs =>
    match rs.splitOn ":" with
    | [id, name] => some { id := id, name := name }
    | _ => none

def decSpecifier? (s : String) : Option Sheets.Specifier :=
  if s == "g" then some .glob
  else if s.startsWith "b" then (decNat? (s.drop 1).toString).map fun i => .book (i - 1)
  else if s.startsWith "s" then
    match (s.drop 1).toString.splitOn "/" with
    | [i, name] => (decNat? i).map fun i => .sheet (i - 1) name
    | _ => none
  else none

def decBooks (s : String) : List (List (String × List MRow)) :=
  if s.isEmpty then [] else (s.splitOn ";").map fun b =>
    (b.splitOn "&").filterMap fun sh =>
      match sh.splitOn "=" with
      | [name, rows] => some (name, decRows rows)
      | _ => none

def showFile (name : String) (rows : List MRow) : String :=
  let es := (rows.map (fun r => r.id ++ "=" ++ r.name)).toArray.qsort (· < ·) |>.toList
  name ++ "{" ++ ",".intercalate es ++ "}"

/-- the files a Merger / Scatter sheet `Conf` of book `Main` must produce, sorted by name -/
def specExpected (kind : String) (specs : List Sheets.Specifier) (main : List MRow) (books : List (List (String × List MRow))) : String :=
  let files : List String :=
    if kind == "m" then [showFile "Conf" (Sheets.mergedRows main books "Conf" specs)]
    else (Sheets.scatteredFiles main books "Conf" specs).map fun f =>
      let book := match f.1 with | none => "Main" | some i => s!"Part{i + 1}"
      showFile (if kind == "S" then f.2.1 else book ++ "_" ++ f.2.1) f.2.2
  "ok " ++ ";".intercalate (files.toArray.qsort (· < ·) |>.toList)

def c11 (fn : String) (a : List String) : Option String := do
  match fn, a with
  | "c07.book", [_, _, _, _, _, target, row, _] =>
    -- C07: the error names the workbook and sheet that hold the spoilt cell, its A1 position (ID column, three
    -- header rows) and its content
    let r ← decNat? row
    let (book, sheet) ← (if target == "main" then some ("Main", "Conf") else
      match (target.drop 1).toString.splitOn "/" with
      | [i, sh] => some ("Part" ++ i, sh)
      | _ => none)
    some s!"err E2012|{book}|{sheet}|A{r + 4}|abc"
  | "o.c07.book", [_, _, _, _, _, target, row, _, obs] =>
    let r ← decNat? row
    let (book, sheet) ← (if target == "main" then some ("Main", "Conf") else
      match (target.drop 1).toString.splitOn "/" with
      | [i, sh] => some ("Part" ++ i, sh)
      | _ => none)
    some (if obs == s!"err E2012|{book}|{sheet}|A{r + 4}|abc" then "holds" else "FAILS")
  | "c11.spec", [kind, _, specs, main, books] =>
    let sp ← (if specs.isEmpty then some [] else (specs.splitOn ",").mapM decSpecifier?)
    some (specExpected kind sp (decRows main) (decBooks books))
  | "o.c11.spec", [kind, _, specs, main, books, obs] =>
    let sp ← (if specs.isEmpty then some [] else (specs.splitOn ",").mapM decSpecifier?)
    some (if obs == specExpected kind sp (decRows main) (decBooks books) then "holds" else "FAILS")
  | "c11.merge", [shape, nbooks, parts, dup] =>
    let books ← decMergeCase? nbooks parts dup
    let fields := mergeFields shape
    let hdr := Options.mergeHeader { namerow := 1, typerow := 2, noterow := 3, datarow := 4 } {} none
    -- importer order: matched secondary books in sorted order, the primary (book 0) last
    let order := (List.range books.length).drop 1 ++ [0]
    let parsed := order.map fun i => (i, TableParser.parse {} fields { hdr := hdr } (bookGrid (books.getD i [])))
    match parsed.find? (fun p => match p.2 with | .ok _ => false | _ => true) with
    | some _ => some "same err-in-book"
    | none =>
      let msgs := parsed.map fun p => match p.2 with | .ok m => m | _ => []
      match Sheets.reduce msgs with
      | .ok m => some ("same " ++ showMerged m)
      | .dup i j =>
        let bi := order.getD i 0; let bj := order.getD j 0
        let lo := min bi bj; let hi := max bi bj
        some s!"same err 2009 Zone{lo + 1}+Zone{hi + 1}"
      | _ => some "same err"
  | "o.c11.merge", [shape, nbooks, parts, dup, obs] =>
    -- C11: union of the books' rows, run-independent, each element once; a key in two books → E2009 naming both
    let books ← decMergeCase? nbooks parts dup
    if !obs.startsWith "same " then some "FAILS" else
    let res := (obs.drop 5).toString
    let all := books.flatten
    if shape == "map" then
      let ids := all.map (·.id)
      let dupId := ids.find? (fun i => (ids.filter (· == i)).length > 1)
      match dupId with
      | some d =>
        let holders := (books.zipIdx.filter (fun (rows, _) => rows.any (·.id == d))).map (·.2)
        match holders with
        | [x, y] => some (if res == s!"err 2009 Zone{x + 1}+Zone{y + 1}" then "holds" else "FAILS")
        | _ => some "unspec"
      | none =>
        let want := (all.map (fun r => r.id ++ "=" ++ r.name)).toArray.qsort (· < ·) |>.toList
        some (if res == "ok map[" ++ ",".intercalate want ++ "] list[]" then "holds" else "FAILS")
    else
      -- list: every row exactly once; each book's rows contiguous and in their order
      if !(res.startsWith "ok map[] list[" && res.endsWith "]") then some "FAILS" else
      let body := ((res.drop 14).dropEnd 1).toString
      let got := if body.isEmpty then [] else body.splitOn ","
      let want := all.map (fun r => r.id ++ "=" ++ r.name)
      let sameMultiset := got.length == want.length && want.all (fun w => (got.filter (· == w)).length == (want.filter (· == w)).length)
      let blocksOk := books.all fun rows =>
        let ws := rows.map (fun r => r.id ++ "=" ++ r.name)
        ws.isEmpty || (match got.idxOf? (ws.headD "") with
          | some k => (got.drop k).take ws.length == ws
          | none => false)
      some (if sameMultiset && blocksOk then "holds" else "FAILS")
  | _, _ => none

end Driver
