/-
Token codec for `Val` and `FieldDesc` (see harness/cmd/vh/valenc.go for the grammar).
-/
import Driver.Proto
import TableauVerif.Model.Val
namespace Driver
open TableauVerif

partial def decDesc? : List String → Option (List FieldDesc × List String)
  | t :: rest => do
    if !t.startsWith "D" then none
    let n ← decNat? (t.drop 1).toString
    decFields? n rest
  | [] => none
where
  decFields? : Nat → List String → Option (List FieldDesc × List String)
    | 0, toks => some ([], toks)
    | n + 1, t :: rest => do
      let parts := t.splitOn ":"
      match parts with
      | numS :: cardS :: rS :: kind :: _ =>
        if !numS.startsWith "F" then none
        let num ← decNat? (numS.drop 1).toString
        let card ← (match cardS with | "o" => some Card.one | "l" => some Card.list | "m" => some Card.map | _ => none)
        let repl := rS == "r1"
        if kind == "m" then
          let (sub, rest') ← decDesc? rest
          let (tl, rest'') ← decFields? n rest'
          some (FieldDesc.mk num card repl true sub :: tl, rest'')
        else
          let (tl, rest') ← decFields? n rest
          some (FieldDesc.mk num card repl false [] :: tl, rest')
      | _ => none
    | _, [] => none

def decHexBytes? (body : String) : Option (List Nat) :=
  if body.isEmpty then some [] else
  (body.splitOn ".").foldr (fun h acc => match parseHex? h, acc with
    | some n, some l => some (n :: l)
    | _, _ => none) (some [])

partial def decVal? : List String → Option (Val × List String)
  | t :: rest =>
    if t.startsWith "i" then (decInt? (t.drop 1).toString).map (fun i => (Val.int i, rest))
    else if t.startsWith "u" then (decHexBytes? (t.drop 1).toString).map (fun b => (Val.str b, rest))
    else if t.startsWith "f" then (parseHex? (t.drop 1).toString).map (fun b => (Val.flt b, rest))
    else if t.startsWith "M" then do
      let n ← decNat? (t.drop 1).toString
      let (fs, rest') ← decMsgFields n rest
      some (Val.msg fs, rest')
    else if t.startsWith "L" then do
      let n ← decNat? (t.drop 1).toString
      let (vs, rest') ← decVals n rest
      some (Val.list vs, rest')
    else if t.startsWith "P" then do
      let n ← decNat? (t.drop 1).toString
      let (es, rest') ← decEntries n rest
      some (Val.map es, rest')
    else none
  | [] => none
where
  decMsgFields : Nat → List String → Option (List (Nat × Val) × List String)
    | 0, toks => some ([], toks)
    | n + 1, t :: rest => do
      if !t.startsWith "#" then none
      let num ← decNat? (t.drop 1).toString
      let (v, rest') ← decVal? rest
      let (tl, rest'') ← decMsgFields n rest'
      some ((num, v) :: tl, rest'')
    | _, [] => none
  decVals : Nat → List String → Option (List Val × List String)
    | 0, toks => some ([], toks)
    | n + 1, toks => do
      let (v, rest') ← decVal? toks
      let (tl, rest'') ← decVals n rest'
      some (v :: tl, rest'')
  decEntries : Nat → List String → Option (List (Val × Val) × List String)
    | 0, toks => some ([], toks)
    | n + 1, toks => do
      let (k, r1) ← decVal? toks
      let (v, r2) ← decVal? r1
      let (tl, r3) ← decEntries n r2
      some ((k, v) :: tl, r3)

def hexBytes (b : List Nat) : String := "u" ++ ".".intercalate (b.map hexOf)

partial def encVal : Val → List String
  | .int i => [s!"i{i}"]
  | .str b => [hexBytes b]
  | .flt b => ["f" ++ hexOf b]
  | .msg fs => s!"M{fs.length}" :: fs.flatMap (fun (n, v) => s!"#{n}" :: encVal v)
  | .list vs => s!"L{vs.length}" :: vs.flatMap encVal
  | .map es => s!"P{es.length}" :: es.flatMap (fun (k, v) => encVal k ++ encVal v)

def valString (v : Val) : String := " ".intercalate (encVal v)

def decDescArg? (s : String) : Option (List FieldDesc) :=
  match decDesc? (s.splitOn " ") with
  | some (d, []) => some d
  | _ => none

def decValArg? (s : String) : Option Val :=
  match decVal? (s.splitOn " ") with
  | some (v, []) => some v
  | _ => none

end Driver
