/-
Codec for the table-parser stream (see harness/cmd/vh/tdesc.go, s_tp.go).
-/
import Driver.Proto
import Driver.ValCodec
import TableauVerif.Model.TableParser
import TableauVerif.Model.Xerrors
import TableauVerif.Spec.C07
import TableauVerif.Spec.C01
namespace Driver
open TableauVerif TableauVerif.Model TableauVerif.Model.TableParser

def decSKind? (s : String) : Option SKind :=
  match s with
  | "i32" => some .int32 | "u32" => some .uint32 | "i64" => some .int64 | "u64" => some .uint64
  | "b" => some .bool | "s" => some .string | _ => none

def decFProp (tok : String) : FProp :=
  (tok.splitOn ";").foldl (fun p part =>
    if part == "u=1" then { p with unique := some true }
    else if part == "u=0" then { p with unique := some false }
    else if part.startsWith "r=" then { p with range := (decStr? (part.drop 2).toString).getD [] }
    else if part == "pr" then { p with present := true }
    else if part == "op" then { p with optional := true }
    else if part == "fx" then { p with fixed := true }
    else if part.startsWith "sz=" then { p with size := ((part.drop 3).toString.toNat?).getD 0 }
    else if part.startsWith "sq=" then { p with sequence := (part.drop 3).toString.toInt? }
    else p) {}

def propSepOf (tok : String) (key : String) : Str :=
  ((tok.splitOn ";").findSome? fun part =>
    if part.startsWith key then decStr? (part.drop key.length).toString else none).getD []

partial def decTDesc? : List String → Option (List TField × List String)
  | t :: rest => do
    if !t.startsWith "T" then none
    let n ← decNat? (t.drop 1).toString
    go n rest
  | [] => none
where
  go : Nat → List String → Option (List TField × List String)
    | 0, toks => some ([], toks)
    | n + 1, g :: name :: key :: keyProto :: protoName :: prop :: rest => do
      match g.splitOn ":" with
      | [numS, cardS, layS, spanS, kindS, kkS] =>
        if !numS.startsWith "G" then none
        let num ← decNat? (numS.drop 1).toString
        let card ← (match cardS with | "o" => some Card.one | "l" => some Card.list | "m" => some Card.map | _ => none)
        let lay ← (match layS with | "d" => some Layout.dflt | "v" => some Layout.vertical | "h" => some Layout.horizontal | "i" => some Layout.incell | _ => none)
        let name ← decStr? name; let key ← decStr? key; let keyProto ← decStr? keyProto; let protoName ← decStr? protoName
        let p := decFProp prop
        let psep := propSepOf prop "sep="; let psub := propSepOf prop "sub="
        if kindS == "m" then
          let (sub, rest') ← decTDesc? rest
          let (tl, rest'') ← go n rest'
          some (TField.mk num name key card lay (spanS == "1") none (decSKind? kkS) sub p psep psub keyProto protoName :: tl, rest'')
        else
          let k ← decSKind? kindS
          let (tl, rest') ← go n rest
          some (TField.mk num name key card lay (spanS == "1") (some k) (decSKind? kkS) [] p psep psub keyProto protoName :: tl, rest')
      | _ => none
    | _, _ => none

def decTDescArg? (s : String) : Option (List TField) :=
  match decTDesc? (s.splitOn " ") with
  | some (d, []) => some d
  | _ => none

/-- grid `R<r>x<c> (<n> cell*)*` -/
def decGrid? (s : String) : Option Grid :=
  match s.splitOn " " with
  | hd :: toks =>
    if !hd.startsWith "R" then none else
    let rec rows (fuel : Nat) (toks : List String) (acc : List (List Str)) : Option (List (List Str)) :=
      match fuel with
      | 0 => none
      | fuel + 1 =>
        match toks with
        | [] => some acc.reverse
        | nS :: rest => do
          let n ← decNat? nS
          let cells ← (rest.take n).mapM decStr?
          if cells.length != n then none
          rows fuel (rest.drop n) (cells :: acc)
    rows (toks.length + 1) toks []
  | [] => none

structure TPOpts where
  ctx : Ctx
  so : SheetOpts

def decTPOpts? (s : String) : Option TPOpts :=
  match s.splitOn " " with
  | [nr, tr, nor, dr, nl, tl, tp, ak, op, ssep, ssub, bsep, bsub] => do
    let ssep ← decString? ssep; let bsep ← decString? bsep
    let ssub ← decString? ssub; let bsub ← decString? bsub
    let sheet : Options.Level := { namerow := ← decInt? nr, typerow := ← decInt? tr, noterow := ← decInt? nor, datarow := ← decInt? dr,
                                   nameline := ← decInt? nl, typeline := ← decInt? tl, sep := ssep, subsep := ssub }
    let book : Options.Level := { sep := bsep, subsep := bsub }
    let hdr := Options.mergeHeader sheet book none
    some { ctx := { sheetSep := Str.ofString ssep, bookSep := Str.ofString bsep, sheetSubsep := Str.ofString ssub, bookSubsep := Str.ofString bsub,
                    sheetOptional := op == "1", tableFormat := true },
           so := { hdr := hdr, transpose := tp == "1", adjacentKey := ak == "1" } }
  | _ => none

/-- strings inside messages are printed as code points on this stream -/
partial def encValRunes : Val → List String
  | .int i => [s!"i{i}"]
  | .str b => [encStr b]
  | .flt b => ["f" ++ hexOf b]
  | .msg fs => s!"M{fs.length}" :: fs.flatMap (fun (n, v) => s!"#{n}" :: encValRunes v)
  | .list vs => s!"L{vs.length}" :: vs.flatMap encValRunes
  | .map es => s!"P{es.length}" :: es.flatMap (fun (k, v) => encValRunes k ++ encValRunes v)

def encPRes : PRes → String
  | .ok m => "ok " ++ " ".intercalate (encValRunes (.msg m))
  | .err code pos cell col =>
    -- the implementation's values come back through `NewDesc`, which trims ' ' and ':' at both ends
    s!"err {code} {encStr pos} {encStr (Str.trim Xerrors.isTrimCut cell)} {encStr col}"
  | .e0003 _ => "e0003"
  | .badTable => "err 0 u u u"
  | .unmodelled => "unmodelled"

def encCore : Core → String
  | .ok m => "ok " ++ " ".intercalate (encValRunes (.msg m))
  | .err code col => s!"err {code} {encStr col}"
  | .e0003 => "e0003"
  | .badTable => "err 0 u"
  | .unmodelled => "unmodelled"

/-- a list whose size IS its number of element columns (`fixed:true` without `size`), or a field that must be present
(`present:true`: its blank cell is an error, it is no optional field), somewhere in the descriptor -/
partial def autoFixed (fs : List TableParser.TField) : Bool :=
  fs.any fun f => (f.prop.fixed && f.prop.size == 0) || f.prop.present || autoFixed f.sub

/-- is `g2` obtained from `g1` by the layout transformation `kind`? (the oracle re-checks what the
generator claims, so that a generator slip can never raise an alarm) -/
def related (kind : String) (o1 o2 : TPOpts) (g1 g2 : Grid) : Bool :=
  let rect (g : Grid) : Grid := g.map (fun r => r ++ List.replicate (g.maxCol - r.length) [])
  match kind with
  | "transpose" =>
    o2.so.transpose == !o1.so.transpose && g1.maxCol > 0 && rect g2 == transposeGrid g1
  | "pad" | "padrows" =>
    -- blank columns appended on the right of every line / blank lines appended / trailing blanks trimmed
    o1.so.transpose == o2.so.transpose &&
    (let a := rect g1; let b := rect g2
     let w := min g1.maxCol g2.maxCol
     let common (g : Grid) := g.map (·.take w)
     let extraBlank (g : Grid) := g.all (fun r => (r.drop w).all (·.isEmpty))
     let n := min a.length b.length
     (common a).take n == (common b).take n && extraBlank a && extraBlank b &&
     ((common a).drop n).all (fun r => r.all (·.isEmpty)) && ((common b).drop n).all (fun r => r.all (·.isEmpty)))
  | "permute" =>
    -- same multiset of columns (as whole columns), names pairwise distinct
    o1.so.transpose == o2.so.transpose && !o1.so.transpose &&
    (let c1 := transposeGrid (rect g1); let c2 := transposeGrid (rect g2)
     c1.length == c2.length && c1.all (fun c => c2.contains c) && c2.all (fun c => c1.contains c) &&
     (let names := (g1.getD (o1.so.hdr.nameRow - 1).toNat []);
      names.all (fun n => (names.filter (· == n)).length == 1)))
  | "dropblank" =>
    -- clause (d): every field optional; columns whose data cells are all blank removed — plain columns, or the
    -- columns of the LAST element (index ≥ 2) of a horizontal aggregate
    o1.so.transpose == o2.so.transpose && !o1.so.transpose && o1.ctx.sheetOptional && o2.ctx.sheetOptional &&
    (let c1 := transposeGrid (rect g1); let c2 := transposeGrid (rect g2)
     let nameIdx := (o1.so.hdr.nameRow - 1).toNat
     let first := (o1.so.hdr.dataRow - 1).toNat
     let nameOf (c : List Str) : Str := c.getD nameIdx []
     let names1 := c1.map nameOf
     let names2 := c2.map nameOf
     -- split a name at its last run of digits: (prefix, index)
     let splitIdx (n : Str) : Option (Str × Nat) :=
       let r := n.reverse
       let tail := r.dropWhile (fun ch => !Str.isDigit ch)
       let digs := (tail.takeWhile Str.isDigit).reverse
       let pre := (tail.dropWhile Str.isDigit).reverse
       if digs.isEmpty then none else (Str.parseNat digs).map (fun k => (pre, k))
     g1.length == g2.length && c2.isSublist c1 &&
     names1.all (fun n => n.isEmpty || (names1.filter (· == n)).length == 1) &&
     c1.all (fun c =>
       c2.contains c ||
       ((c.drop first).all (·.isEmpty) && !(nameOf c).isEmpty &&
        (match splitIdx (nameOf c) with
         | none => true
         | some (pre, k) =>
           k ≥ 2 && names2.all (fun n2 => match splitIdx n2 with
             | some (pre2, k2) => !(pre2 == pre && k2 ≥ k)
             | none => true)))))
  | _ => false

def encGrid (g : Grid) : String :=
  s!"R{g.length}x{g.maxCol}" ++ String.join (g.map fun r => s!" {r.length}" ++ String.join (r.map fun c => " " ++ encStr c))

/-- values on the C01 stream carry strings as code points -/
partial def decValRunes? : List String → Option (Val × List String)
  | t :: rest =>
    if t.startsWith "i" then (decInt? (t.drop 1).toString).map (fun i => (Val.int i, rest))
    else if t.startsWith "u" then (decStr? t).map (fun b => (Val.str b, rest))
    else if t.startsWith "M" then do
      let n ← decNat? (t.drop 1).toString
      let (fs, rest') ← fields n rest
      some (Val.msg fs, rest')
    else if t.startsWith "L" then do
      let n ← decNat? (t.drop 1).toString
      let (vs, rest') ← vals n rest
      some (Val.list vs, rest')
    else if t.startsWith "P" then do
      let n ← decNat? (t.drop 1).toString
      let (es, rest') ← entries n rest
      some (Val.map es, rest')
    else none
  | [] => none
where
  fields : Nat → List String → Option (List (Nat × Val) × List String)
    | 0, toks => some ([], toks)
    | n + 1, t :: rest => do
      if !t.startsWith "#" then none
      let num ← decNat? (t.drop 1).toString
      let (v, rest') ← decValRunes? rest
      let (tl, rest'') ← fields n rest'
      some ((num, v) :: tl, rest'')
    | _, [] => none
  vals : Nat → List String → Option (List Val × List String)
    | 0, toks => some ([], toks)
    | n + 1, toks => do
      let (v, rest') ← decValRunes? toks
      let (tl, rest'') ← vals n rest'
      some (v :: tl, rest'')
  entries : Nat → List String → Option (List (Val × Val) × List String)
    | 0, toks => some ([], toks)
    | n + 1, toks => do
      let (k, r1) ← decValRunes? toks
      let (v, r2) ← decValRunes? r1
      let (tl, r3) ← entries n r2
      some ((k, v) :: tl, r3)

/-- the sheet of a contiguity case (same construction as harness `contigCase`) -/
def contigCase (shape : String) (N : Nat) (cells : List Str) : Option (List TField × Grid) :=
  let idF : TField := .mk 1 (Str.ofString "ID") [] .one .dflt false (some .int32) none [] {} [] [] [] (Str.ofString "id")
  let item := Str.ofString "Item"
  let names (suffix : String) := (List.range N).map fun i => item ++ Str.decimal (i + 1) ++ Str.ofString suffix
  let mk (f : TField) (ns : List Str) : List TField × Grid :=
    ([f], [ns, ns.map (fun _ => Str.ofString "type"), ns.map (fun _ => Str.ofString "note"), cells])
  match shape with
  | "scalar" => some (mk (.mk 1 item [] .list .horizontal false (some .int32) none [] {} [] [] [] (Str.ofString "item_list")) (names ""))
  | "struct" => some (mk (.mk 1 item [] .list .horizontal false none none [idF] {} [] [] (Str.ofString "") (Str.ofString "item_list")) (names "ID"))
  | "map" => some (mk (.mk 1 item (Str.ofString "ID") .map .horizontal false none none [idF] {} [] [] (Str.ofString "id") (Str.ofString "item_map")) (names "ID"))
  | _ => none

def tp (fn : String) (a : List String) : Option String := do
  match fn, a with
  | "tp.parse", [opts, desc, grid] =>
    let o ← decTPOpts? opts
    let d ← decTDescArg? desc
    let g ← decGrid? grid
    some (encPRes (TableParser.parse o.ctx d o.so g))
  | "tp.pair", [_kind, opts1, opts2, desc, grid1, grid2] =>
    let o1 ← decTPOpts? opts1; let o2 ← decTPOpts? opts2
    let d ← decTDescArg? desc
    let g1 ← decGrid? grid1; let g2 ← decGrid? grid2
    let r1 := (TableParser.parse o1.ctx d o1.so g1).core
    let r2 := (TableParser.parse o2.ctx d o2.so g2).core
    let s1 := encCore r1; let s2 := encCore r2
    some (if s1 == "unmodelled" || s2 == "unmodelled" then "unmodelled" else if s1 == s2 then "same" else s!"differ {s1} | {s2}")
  | "o.tp.pair", [kind, opts1, opts2, _desc, grid1, grid2, obs] =>
    -- C10 / C08: the two layouts of the same sheet must convert identically
    let o1 ← decTPOpts? opts1; let o2 ← decTPOpts? opts2
    let g1 ← decGrid? grid1; let g2 ← decGrid? grid2
    if !related kind o1 o2 g1 g2 then none else
    if kind == "dropblank" && autoFixed (← decTDescArg? _desc) then none else
    some (if obs == "same" then "holds" else "FAILS")
  | "w.c01.case", [opts, hd, desc, val] =>
    let defer := hd.endsWith "d"
    let h := if defer then (hd.dropEnd 1).toString else hd
    -- the specification WRITES the worksheet for the message
    let o ← decTPOpts? opts
    let d ← decTDescArg? desc
    let H ← decNat? h
    match decValRunes? (val.splitOn " ") with
    | some (.msg m, []) =>
      if !Spec.C01.fits o.ctx H d m then none else
      some ("c01.rt\t" ++ opts ++ "\t" ++ desc ++ "\t" ++ encGrid (Spec.C01.write o.ctx H d m defer) ++ "\t" ++ val)
    | _ => none
  | "w.c07.case", [opts, hd, desc, val, seed] =>
    -- a VALID written sheet with exactly one data cell replaced by a text no numeric/bool column accepts
    let o ← decTPOpts? opts
    let d ← decTDescArg? desc
    let H ← decNat? hd
    let k ← decNat? seed
    match decValRunes? (val.splitOn " ") with
    | some (.msg m, []) =>
      if !Spec.C01.fits o.ctx H d m then none else
      let g := Spec.C01.write o.ctx H d m
      let numeric (t : Str) : Bool :=
        !t.isEmpty && (t == Str.ofString "true" || t == Str.ofString "false" ||
          (t.any Str.isDigit && t.all (fun ch => Str.isDigit ch || ch == 45 || ch == 44 || ch == 59 || ch == 58 || ch == 124 || ch == 61)))
      let cands := (g.zipIdx.drop 3).flatMap fun (row, r) => (row.zipIdx.filter (fun (t, _) => numeric t)).map fun (_, c) => (r, c)
      if cands.isEmpty then some "c07.skip" else
      let (r, c) := cands.getD (k % cands.length) (0, 0)
      let bad := Str.ofString "x!"
      let g' := g.set r ((g.getD r []).set c bad)
      some ("c07.corrupt\t" ++ opts ++ "\t" ++ desc ++ "\t" ++ encGrid g' ++ s!"\t{r}\t{c}")
    | _ => none
  | "c07.skip", [] => some "skip"
  | "o.c07.skip", _ => some "unspec"
  | "c07.corrupt", [opts, desc, grid, _r, _c] =>
    let o ← decTPOpts? opts
    let d ← decTDescArg? desc
    let g ← decGrid? grid
    some (encPRes (TableParser.parse o.ctx d o.so g))
  | "o.c07.corrupt", [_opts, _desc, _grid, r, c, obs] =>
    -- C07: the error names exactly the corrupted cell (A1) and its content, with an error code
    let r ← decNat? r; let c ← decNat? c
    match obs.splitOn " " with
    | ["err", code, pos, cell, _col] =>
      let okPos := (decStr? pos) == some (Excel.position r c)
      let okCell := (decStr? cell) == some (Str.ofString "x!")
      some (if okPos && okCell && code != "0" then "holds" else "FAILS")
    | _ => some "FAILS"
  | "c01.rt", [opts, desc, grid, _val] =>
    let o ← decTPOpts? opts
    let d ← decTDescArg? desc
    let g ← decGrid? grid
    some (encPRes (TableParser.parse o.ctx d o.so g))
  | "o.c01.rt", [_opts, _desc, _grid, val, obs] =>
    -- C01: the conversion of the written sheet is exactly the message
    some (if obs == "ok " ++ val then "holds" else "FAILS")
  | "c12.contig", shape :: n :: cells =>
    let N ← decNat? n
    let cs ← cells.mapM decStr?
    let (fields, g) ← contigCase shape N cs
    let hdr := Options.mergeHeader { namerow := 1, typerow := 2, noterow := 3, datarow := 4 } {} none
    some (encPRes (TableParser.parse {} fields { hdr := hdr } g))
  | "o.c12.contig", shape :: n :: rest =>
    -- C12 contiguity: accepted iff the present elements form a prefix; then exactly those values, in order
    let _N ← decNat? n
    let cs ← rest.dropLast.mapM decStr?
    let obs ← rest.getLast?
    let present := cs.map (fun c => !c.isEmpty)
    let k := (present.takeWhile id).length
    let contiguous := (present.drop k).all (fun b => !b)
    if contiguous then
      let vals := (cs.take k).filterMap (fun c => (Str.parseNat c).map (fun x => (x : Int)))
      let expected : Val :=
        if k == 0 then .msg []
        else match shape with
          | "scalar" => .msg [(1, .list (vals.map .int))]
          | "struct" => .msg [(1, .list (vals.map fun v => .msg [(1, .int v)]))]
          | _ => .msg [(1, .map (vals.map fun v => (.int v, .msg [(1, .int v)])))]
      some (if obs == "ok " ++ " ".intercalate (encValRunes expected) then "holds" else "FAILS")
    else
      -- a hole followed by a present element: must be rejected (E2016 for lists)
      some (if obs.startsWith "err" && (shape == "map" || obs.startsWith "err 2016 ") then "holds" else "FAILS")
  | "o.tp.parse", [_opts, _desc, grid, obs] =>
    -- C07: a reported plain A1 position must hold the reported content, in the sheet as given
    let g ← decGrid? grid
    match obs.splitOn " " with
    | ["err", _, pos, cell, _] => some (Spec.C07.holdsErrPos g (← decStr? pos) (← decStr? cell)).toString
    | _ => some "unspec"
  | _, _ => none

end Driver
