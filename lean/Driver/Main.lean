/-
Line-protocol driver over Model + Spec.  One op per line, tab separated:
  <fn> TAB <arg> TAB <arg> …   →   one output line.
`bad-op` is printed for anything the driver cannot decode (never a default).
-/
import Driver.Proto
import Driver.ValCodec
import Driver.TPCodec
import Driver.C11Codec
import Driver.PGCodec
import Driver.DocCodec
import TableauVerif.Model.Patch
import TableauVerif.Spec.C13
import TableauVerif.Model.FieldProp
import TableauVerif.Spec.C12
import TableauVerif.Model.Time
import TableauVerif.Spec.C20
import TableauVerif.Model.TextFmt
import TableauVerif.Model.Path
import TableauVerif.Spec.C18
import TableauVerif.Model.Options
import TableauVerif.Model.Excel
import TableauVerif.Model.Xerrors
import TableauVerif.Spec.C14
import TableauVerif.Spec.C07
import TableauVerif.Model.Literal
import TableauVerif.Spec.C03
import TableauVerif.Spec.C03Frac
import TableauVerif.Model.Fraction
import TableauVerif.Model.Duration
import TableauVerif.Model.EnumLit
import TableauVerif.Spec.C03Enum
import TableauVerif.Spec.C20Dur
import TableauVerif.Model.Importer
import TableauVerif.Model.Incremental
import TableauVerif.Model.Rfc3339
import TableauVerif.Spec.C20Emit
import TableauVerif.Model.CSV
import TableauVerif.Model.CsvName
import TableauVerif.Spec.Grid
namespace Driver
open TableauVerif TableauVerif.Model

/-! ### C14 -/
def decLevel? (a : List String) : Option Options.Level := do
  match a with
  | [nr, tr, nor, dr, nl, tl, sep, subsep] =>
    some { namerow := ← decInt? nr, typerow := ← decInt? tr, noterow := ← decInt? nor,
           datarow := ← decInt? dr, nameline := ← decInt? nl, typeline := ← decInt? tl,
           sep := ← decString? sep, subsep := ← decString? subsep }
  | _ => none

def encHeader (h : Options.Header) : String :=
  s!"{h.nameRow} {h.typeRow} {h.noteRow} {h.dataRow} {h.nameLine} {h.typeLine} {encString h.sep} {encString h.subsep}"

def decHeader? (s : String) : Option Options.Header := do
  match s.splitOn " " with
  | [nr, tr, nor, dr, nl, tl, sep, subsep] =>
    some { nameRow := ← decInt? nr, typeRow := ← decInt? tr, noteRow := ← decInt? nor,
           dataRow := ← decInt? dr, nameLine := ← decInt? nl, typeLine := ← decInt? tl,
           sep := ← decString? sep, subsep := ← decString? subsep }
  | _ => none

def decOptLevel? (flag : String) (a : List String) : Option (Option Options.Level) := do
  let l ← decLevel? a
  if flag == "1" then some (some l) else if flag == "0" then some none else none

def verdict (b : Bool) : String := if b then "holds" else "FAILS"

def c14 (fn : String) (a : List String) : Option String := do
  match fn with
  | "c14.merge" =>
    let s ← decLevel? (a.take 8); let b ← decLevel? ((a.drop 8).take 8)
    let g ← decOptLevel? ((a.drop 16).headD "") ((a.drop 17).take 8)
    if a.length != 25 then none
    some (encHeader (Options.mergeHeader s b g))
  | "o.c14.merge" =>
    let s ← decLevel? (a.take 8); let b ← decLevel? ((a.drop 8).take 8)
    let g ← decOptLevel? ((a.drop 16).headD "") ((a.drop 17).take 8)
    let obs ← decHeader? ((a.drop 25).headD "")
    some (verdict (Spec.C14.holdsMerge s b g obs))
  | "c14.fieldsep" =>
    match a with
    | [f, s, b] => some (encString (Options.fieldSep (← decString? f) (← decString? s) (← decString? b)))
    | _ => none
  | "o.c14.fieldsep" =>
    match a with
    | [f, s, b, o] => some (verdict (Spec.C14.holdsFieldSep (← decString? f) (← decString? s) (← decString? b) (← decString? o)))
    | _ => none
  | "c14.fieldsubsep" =>
    match a with
    | [f, s, b] => some (encString (Options.fieldSubsep (← decString? f) (← decString? s) (← decString? b)))
    | _ => none
  | "o.c14.fieldsubsep" =>
    match a with
    | [f, s, b, o] => some (verdict (Spec.C14.holdsFieldSubsep (← decString? f) (← decString? s) (← decString? b) (← decString? o)))
    | _ => none
  | "c14.record" =>
    -- args: sheet(8) hasBook book(8) hasGlobal global(8) → recorded book level + recorded sheet level
    let s ← decLevel? (a.take 8)
    let bm ← decOptLevel? ((a.drop 8).headD "") ((a.drop 9).take 8)
    let g ← decOptLevel? ((a.drop 17).headD "") ((a.drop 18).take 8)
    let rb := Options.recordBook g bm
    let rs := Options.recordSheet s
    let enc (l : Options.Level) := s!"{l.namerow} {l.typerow} {l.noterow} {l.datarow} {l.nameline} {l.typeline} {encString l.sep} {encString l.subsep}"
    some (enc rb ++ " / " ++ enc rs)
  | "c14.recorddoc" =>
    -- args: hasBook book(8) hasGlobal global(8) → recorded separators of a document workbook
    let bm ← decOptLevel? (a.headD "") ((a.drop 1).take 8)
    let g ← decOptLevel? ((a.drop 9).headD "") ((a.drop 10).take 8)
    let rb := Options.recordBook g bm
    some s!"{encString rb.sep} {encString rb.subsep}"
  | "c14.e2e" =>
    -- the sheet is laid out according to the SPECIFIED resolution; the run succeeds with the right
    -- data iff protogen's view and confgen's view of the recorded options are both that resolution
    let s ← decLevel? (a.take 8)
    let bm ← decOptLevel? ((a.drop 8).headD "") ((a.drop 9).take 8)
    let g ← decOptLevel? ((a.drop 17).headD "") ((a.drop 18).take 8)
    let spec := Spec.C14.resolved s (bm.getD {}) g
    let pv := Options.protogenView s bm g
    let cv := Options.confgenView (Options.recordSheet s) (Options.recordBook g bm)
    some (if pv == spec && cv == spec then "ok" else "bad")
  | "o.c14.e2e" =>
    -- oracle: a sheet laid out by the specified resolution must convert, with exactly its data
    let obs := (a.drop 26).headD ""
    some (verdict (obs == "ok"))
  | "o.c14.agree" =>
    -- args: sheet(8) hasBook book(8) hasGlobal global(8) confgenHeader protogenHeader
    let s ← decLevel? (a.take 8)
    let bm ← decOptLevel? ((a.drop 8).headD "") ((a.drop 9).take 8)
    let g ← decOptLevel? ((a.drop 17).headD "") ((a.drop 18).take 8)
    let c ← decHeader? ((a.drop 26).headD "")
    let p ← decHeader? ((a.drop 27).headD "")
    some (verdict (Spec.C14.holdsAgree s bm g c p))
  | _ => none

/-! ### C07 (position / error text protocol) -/

/-- error tree encoding: `W n k1 v1 … kn vn` (wrap layers, outermost first) … `L n k1 v1 … reason` -/
partial def decErr? : List String → Option Xerrors.Err
  | "W" :: n :: rest => do
    let n ← decNat? n
    let kvs ← decKVs? n rest
    let inner ← decErr? (rest.drop (2 * n))
    some (.wrap kvs inner)
  | "L" :: n :: rest => do
    let n ← decNat? n
    let kvs ← decKVs? n rest
    match rest.drop (2 * n) with
    | [reason] => some (.leaf kvs (← decStr? reason))
    | _ => none
  | _ => none
where
  decKVs? : Nat → List String → Option (List Xerrors.KV)
    | 0, _ => some []
    | n + 1, k :: v :: rest => do
      let k ← decStr? k; let v ← decStr? v
      let tl ← decKVs? n rest
      some ((k, v) :: tl)
    | _, _ => none

def decOptStr? (s : String) : Option (Option Str) :=
  if s == "-" then some none else (decStr? s).map some

def c07 (fn : String) (a : List String) : Option String := do
  match fn, a with
  | "c07.letter", [n] => some (encStr (Excel.letterAxis (← decNat? n)))
  | "c07.position", [r, c] => some (encStr (Excel.position (← decNat? r) (← decNat? c)))
  | "o.c07.position", [r, c, o] => some (verdict (Spec.C07.holdsPosition (← decNat? r) (← decNat? c) (← decStr? o)))
  | "c07.descget", [txt, key] => some (encOptStr (Xerrors.newDescGet (← decStr? txt) (← decStr? key)))
  | "c07.render", tree => some (encStr (Xerrors.render (← decErr? tree)))
  | "c07.desc", key :: tree =>
    let e ← decErr? tree
    some (encOptStr (Xerrors.newDescGet (Xerrors.render e) (← decStr? key)))
  | "o.c07.desc", key :: rest =>
    let e ← decErr? rest.dropLast
    let obs ← decOptStr? (← rest.getLast?)
    some (Spec.C07.holdsDesc e (← decStr? key) obs).toString
  | _, _ => none

/-! ### C03 (literals) -/
def decKind? (s : String) : Option Literal.Kind :=
  match s with
  | "int32" | "sint32" | "sfixed32" => some .int32
  | "uint32" | "fixed32" => some .uint32
  | "int64" | "sint64" | "sfixed64" => some .int64
  | "uint64" | "fixed64" => some .uint64
  | "bool" => some .bool
  | _ => none

def encRes : Literal.Res → String
  | .ok v => s!"ok {v}"
  | .absent => "absent"
  | .err c => s!"err {c}"
  | .unmodelled => "unmodelled"

def decRes? (s : String) : Option Literal.Res :=
  match s.splitOn " " with
  | ["ok", v] => (decInt? v).map .ok
  | ["absent"] => some .absent
  | ["err", c] => (decNat? c).map .err
  | ["PANIC"] => some (.err 999999)   -- a crash is not an acceptance; the panic itself is C17's business
  | _ => none

def encFRes : Model.Fraction.FRes → String
  | .ok n d => s!"ok {n} {d}" | .absent => "absent" | .err c => s!"err {c}" | .unmodelled => "unmodelled"
def encCRes : Model.Fraction.CRes → String
  | .ok sg n d => s!"ok {sg.number} {n} {d}" | .absent => "absent" | .err c => s!"err {c}" | .unmodelled => "unmodelled"
def decFRes? (s : String) : Option Model.Fraction.FRes :=
  match s.splitOn " " with
  | ["ok", n, d] => do some (.ok (← n.toInt?) (← d.toInt?))
  | ["absent"] => some .absent
  | ["err", c] => do some (.err (← c.toNat?))
  | ["unmodelled"] => some .unmodelled
  | _ => none
def decSign? : String → Option Model.Fraction.Sign
  | "0" => some .eq | "1" => some .ne | "2" => some .lt | "3" => some .le | "4" => some .gt | "5" => some .ge | _ => none
def decCRes? (s : String) : Option Model.Fraction.CRes :=
  match s.splitOn " " with
  | ["ok", sg, n, d] => do some (.ok (← decSign? sg) (← n.toInt?) (← d.toInt?))
  | ["absent"] => some .absent
  | ["err", c] => do some (.err (← c.toNat?))
  | ["unmodelled"] => some .unmodelled
  | _ => none

/-- enum table `num:name:alias;…` (name and alias as u-hex strings) -/
def decEnumTable? (s : String) : Option (List Model.EnumLit.EVal) :=
  (s.splitOn ";").mapM fun e =>
    match e.splitOn ":" with
    | [n, name, al] => do pure { num := ← n.toInt?, name := ← decStr? name, alias := ← decStr? al }
    | _ => none

def c03 (fn : String) (a : List String) : Option String := do
  match fn, a with
  | "c03.enum", [tbl, raw] => some (encRes (Model.EnumLit.parseEnum (← decEnumTable? tbl) (← decStr? raw)))
  | "o.c03.enum", [tbl, raw, obs] => some (Spec.C03Enum.holds (← decEnumTable? tbl) (← decStr? raw) (← decRes? obs))
  | "c03.parse", [k, raw] => some (encRes (Literal.parse (← decKind? k) (← decStr? raw)))
  | "o.c03.parse", [k, raw, obs] =>
    some (Spec.C03.holds (← decKind? k) (← decStr? raw) (← decRes? obs)).toString
  | "c03.frac", [raw] => some (encFRes (Model.Fraction.parseFraction (← decStr? raw)))
  | "c03.cmp", [raw] => some (encCRes (Model.Fraction.parseComparator (← decStr? raw)))
  | "o.c03.frac", [raw, obs] => some (Spec.C03.holdsFrac (← decStr? raw) (← decFRes? obs)).toString
  | "o.c03.cmp", [raw, obs] => some (Spec.C03.holdsCmp (← decStr? raw) (← decCRes? obs)).toString
  | _, _ => none

/-! ### C13 (patch) -/
/-- patch files of a load case: `-` (no such file) or `<format letter>:<message>` joined by `|` -/
def decPatches? (s : String) : Option (List (Option Val)) :=
  if s.isEmpty then some [] else
  (s.splitOn "|").mapM fun spec =>
    if spec == "-" then some none
    else match spec.splitOn ":" with
      | [_, v] => (decValArg? v).map some
      | _ => none

def c13 (fn : String) (a : List String) : Option String := do
  match fn, a with
  | "c13.patch", [d, dst, src] =>
    let d ← decDescArg? d
    let dst ← decValArg? dst
    let src ← decValArg? src
    some (valString (Patch.patch d dst src))
  | "o.c13.patch", [d, dst, src, obs] =>
    let d ← decDescArg? d
    let dst ← decValArg? dst
    let src ← decValArg? src
    -- the observation must be exactly the specified message (and the harness saw src untouched)
    some (verdict (obs == valString (Spec.C13.expected d dst src)))
  | "c13.load", [d, pt, mode, _, _, main, patches] =>
    let d ← decDescArg? d
    let main ← decValArg? main
    let ps ← decPatches? patches
    let pt ← (match pt with | "n" => some Patch.PatchType.none | "r" => some .replace | "m" => some .merge | _ => none)
    let mode ← (match mode with | "a" => some Patch.LoadMode.all | "m" => some .onlyMain | "p" => some .onlyPatch | _ => none)
    some (valString (Patch.load d pt mode main ps))
  | "o.c13.load", [d, pt, mode, _, _, main, patches, obs] =>
    let d ← decDescArg? d
    let main ← decValArg? main
    let ps ← decPatches? patches
    let pt ← (match pt with | "n" => some 0 | "r" => some 1 | "m" => some 2 | _ => none)
    let mode ← (match mode with | "a" => some 0 | "m" => some 1 | "p" => some 2 | _ => none)
    some (verdict (obs == valString (Spec.C13.loadExpected d pt mode main ps)))
  | _, _ => none

/-! ### C12 (field properties) -/
def decRKind? (s : String) : Option FieldProp.RKind :=
  match s with
  | "int32" | "int64" | "sint32" | "sint64" | "sfixed32" | "sfixed64" => some .signed
  | "uint32" | "uint64" | "fixed32" | "fixed64" => some .unsigned
  | "string" => some .strlen
  | "bool" | "bytes" => some .other
  | _ => none

def encRRes : FieldProp.RRes → String
  | .ok => "ok" | .e2004 => "err 2004" | .invalid => "err 0" | .panic => "PANIC"

def decRRes? (s : String) : Option FieldProp.RRes :=
  match s with
  | "ok" => some .ok | "err 2004" => some .e2004 | "err 0" => some .invalid | "PANIC" => some .panic
  | _ => none

/-- value argument: an integer, or (for strings) the text whose code points are counted -/
def decRangeVal? (k : FieldProp.RKind) (s : String) : Option Int :=
  match k with
  | .strlen => (decStr? s).map (fun r => (r.length : Int))
  | _ => decInt? s

def c12 (fn : String) (a : List String) : Option String := do
  match fn, a with
  | "c12.range", [kind, range, v, p, pp] =>
    let k ← decRKind? kind
    some (encRRes (FieldProp.checkInRange (← decStr? range) k (← decRangeVal? k v) (← decBool? p) (← decBool? pp)))
  | "o.c12.range", [kind, range, v, p, _pp, obs] =>
    let k ← decRKind? kind
    if (← decBool? p) then
      some (Spec.C12.holdsRange (← decStr? range) k (← decRangeVal? k v) (← decRRes? obs)).toString
    else some (if obs == "PANIC" then "FAILS" else "unspec")
  | "c12.seq", seq :: key :: keys =>
    let s ← (if seq == "-" then some none else (decInt? seq).map some)
    let ks ← keys.mapM decInt?
    some (encBool (FieldProp.checkSequence s (← decInt? key) ks))
  | _, _ => none

/-! ### C20 (date/time) -/
/-- zone table `st:off,st:off,…` -/
def decZone? (s : String) : Option Time.Zone :=
  (s.splitOn ",").mapM fun e =>
    match e.splitOn ":" with
    | [a, b] => do some ((← decInt? a), (← decInt? b))
    | _ => none

def encTRes : Time.TRes → String
  | .ok t => s!"ok {t}" | .err => "err" | .unmodelled => "unmodelled"

def decTRes? (s : String) : Option Time.TRes :=
  match s.splitOn " " with
  | ["ok", t] => (decInt? t).map .ok
  | ["err"] => some .err
  | ["okn", _, _] => some .unmodelled      -- sub-second instant (fractional seconds in the cell)
  | _ => none

def encDRes : Model.Duration.DRes → String
  | .ok d => let (s, n) := Model.Duration.toSecNanos d; s!"ok {s} {n}"
  | .absent => "absent"
  | .err => "err"
  | .unmodelled => "unmodelled"

def decDRes? (s : String) : Option Model.Duration.DRes :=
  match s.splitOn " " with
  | ["ok", a, b] => do
    let x ← a.toInt?; let y ← b.toInt?
    some (.ok (x * 1000000000 + y))
  | ["absent"] => some .absent
  | ["err"] => some .err
  | _ => none

def c20 (fn : String) (a : List String) : Option String := do
  match fn, a with
  | "c20.dur", [raw] => some (encDRes (Model.Duration.parseCell (← decStr? raw)))
  | "o.c20.dur", [raw, obs] => some (Spec.C20Dur.holdsDur (← decStr? raw) (← decDRes? obs))
  | "c20.ts", [_name, zone, raw] => some (encTRes (Time.parseTimestamp (← decZone? zone) (← decStr? raw)))
  | "c20.gen", [_loc, _machine, _eff, zone, raw] => some (encTRes (Time.parseTimestamp (← decZone? zone) (← decStr? raw)))
  | "c06.cell", [_name, zone, raw] =>
    some (match Time.parseTimestamp (← decZone? zone) (← decStr? raw) with
      | .ok _ => "all" | .err => "none" | .unmodelled => "unmodelled")
  | "o.c06.cell", [_name, _zone, _raw, obs] => some (if obs == "all" || obs == "none" then "holds" else "FAILS")
  | "c20.emitts", [_name, zone, t, n] =>
    some (encStr (Rfc3339.format (← decZone? zone) (← decInt? t) (← decNat? n)))
  | "o.c20.emitts", [_name, zone, t, n, obs] =>
    some (Spec.C20Emit.holds (← decZone? zone) (← decInt? t) (← decNat? n) (← decStr? obs)).toString
  | "c20.emitz", [_loc, _machine, _eff, zone, raw] =>
    let z ← decZone? zone
    some (match Time.parseTimestamp z (← decStr? raw) with
      | .ok t => s!"okz {t} {Time.lookupOffset z t}"
      | r => encTRes r)
  | "o.c20.emitz", [_loc, _machine, _eff, zone, raw, obs] =>
    let z ← decZone? zone
    match obs.splitOn " " with
    | ["okz", tS, offS] =>
      let t ← decInt? tS; let off ← decInt? offS
      let v := Spec.C20.holdsTs z (← decStr? raw) (.ok t)
      -- the same instant, shown with the offset the location has at that instant
      some (match v with
        | .holds => if off != Time.lookupOffset z t then "FAILS" else "holds"
        | v => v.toString)
    | _ => some (Spec.C20.holdsTs z (← decStr? raw) (← decTRes? obs)).toString
  | "o.c20.gen", [_loc, _machine, _eff, zone, raw, obs] =>
    some (Spec.C20.holdsTs (← decZone? zone) (← decStr? raw) (← decTRes? obs)).toString
  | "o.c20.ts", [_name, zone, raw, obs] =>
    some (Spec.C20.holdsTs (← decZone? zone) (← decStr? raw) (← decTRes? obs)).toString
  | _, _ => none

/-! ### CSV workbook naming (xfs/csv.go) -/
def csvNames (fn : String) (a : List String) : Option String := do
  match fn, a with
  | "csv.name", [p] =>
    some (match Model.CsvName.parseFilename (← decStr? p) with
      | some (b, s) => s!"file {encStr b} {encStr s}"
      | none => "err")
  | "doc.bookname", [p] =>
    let f ← decStr? p
    -- `.yml` is not a document extension of the importer: no book
    some (if Model.CsvName.extOf (Model.CsvName.baseName f) == Str.ofString ".yml" then "err"
          else s!"name {encStr (Model.CsvName.trimExt (Model.CsvName.baseName f))}")
  | "csv.book", [p] =>
    some (match Model.CsvName.bookPattern (← decStr? p) with
      | some k => s!"key {encStr k}"
      | none => "err")
  | _, _ => none

/-! ### C05 (replays judged by "the call returned") -/
def c05 (fn : String) (a : List String) : Option String := do
  match fn, a with
  | "c05.typeinfos", [_, _, _] => some "ok"          -- the model: disciplined threads always finish (C05_deadlock_free)
  | "o.c05.typeinfos", [_, _, _, obs] => some (verdict (obs == "ok"))
  | "c17.sepcell", _ => some "returned"
  | "o.c17.sepcell", args => some (verdict (args.getLast? == some "returned"))
  | "c05.docs", _ => some "returned"
  | "o.c05.docs", args => some (verdict (args.getLast? == some "returned"))
  | "c05.gen", _ => some "returned"
  | "o.c05.gen", args => some (verdict (args.getLast? == some "returned"))
  | _, _ => none

/-! ### C04 (determinism; the model of a run is a function of its input, so all runs agree) -/
def c04 (fn : String) (a : List String) : Option String := do
  match fn, a with
  | "c04.det", [variant, named, _n] =>
    let v ← decNat? variant
    -- odd variants carry exactly one bad cell (in a merger book, which a named-workbook run does not convert)
    some (if v % 2 == 1 && named == "0" then "same err" else "same ok")
  | "o.c04.det", [_, _, _, obs] => some (if obs.startsWith "same " then "holds" else "FAILS")
  | "c04.alias", [_, _, _] => some "ok"    -- every lookup is a function of (enum, alias): the schedule is not an input
  | "o.c04.alias", [_, _, _, obs] => some (verdict (obs == "ok"))
  | "c06.squeeze", [t] => some (encStr (TextFmt.squeeze (← decStr? t)))
  | "c06.rt", mask :: _ =>
    -- the three files decode to the message (codecs: trusted laws; squeeze: C06_squeeze_keeps_literals); with
    -- EmitTimezones (mask bit 16) every Timestamp is shown as the same instant with the location's offset
    let m ← decNat? mask
    some ("json=1 text=1 bin=1 tz=" ++ (if m / 16 % 2 == 1 then "1" else "-"))
  | "o.c06.rt", mask :: rest =>
    let m ← decNat? mask
    some (if rest.getLast? == some ("json=1 text=1 bin=1 tz=" ++ (if m / 16 % 2 == 1 then "1" else "-")) then "holds" else "FAILS")
  | "c16.hist", _ => some "same"      -- C16_refines: every call behaves as in a fresh process
  | "o.c16.hist", args => some (if args.getLast? == some "same" then "holds" else "FAILS")
  | _, _ => none

/-! ### C18 (cleanup of the proto output dir) -/
def decStrList? (s : String) : Option (List Str) :=
  if s.isEmpty then some [] else (s.splitOn ",").mapM decStr?

def sortStrs (l : List Str) : List Str := (l.toArray.qsort (fun a b => Val.listLt a b)).toList

def c18 (fn : String) (a : List String) : Option String := do
  match fn, a with
  | "c18.prep", [files, imports] =>
    let fs ← decStrList? files; let im ← decStrList? imports
    let left := (Path.prepareOutdir im (fs.map (·, false))).map (·.1)
    some (",".intercalate ((sortStrs left).map encStr))
  | "o.c18.prep", [files, imports, obs] =>
    let fs ← decStrList? files; let im ← decStrList? imports
    if obs.endsWith "REMOVED" then some "FAILS" else
    let after ← decStrList? obs
    some (if Spec.C18.holdsPrep im (sortStrs fs) after then "holds" else "FAILS")
  | "c18.prep", [_files, _imports, _dir] => some "err"   -- os.Remove refuses a non-empty directory: the run fails, nothing nested is touched
  | "o.c18.prep", [_files, _imports, _dir, obs] => some (if obs == "err" then "holds" else "FAILS")
  | "c18.clean", [p] => some (encStr (Path.clean (← decStr? p)))
  | "c04.rewrite", [p, rules] =>
    let rs ← (if rules.isEmpty then some [] else (rules.splitOn ";").mapM fun kv =>
      match kv.splitOn "=" with
      | [k, v] => do pure ((← decStr? k), (← decStr? v))
      | _ => none)
    some ("same " ++ encStr (Path.rewriteSubdir (← decStr? p) rs))
  | "o.c04.rewrite", [_, _, obs] => some (if obs.startsWith "same " then "holds" else "FAILS")
  | "c18.incr", [_] => some "same"       -- the model of a run is a function of the named books' inputs
  | "c18.incr", [_, _] => some "same"
  | "o.c18.incr", [_, obs] => some (if obs == "same" then "holds" else "FAILS")
  | "o.c18.incr", [_, _, obs] => some (if obs == "same" then "holds" else "FAILS")
  | _, _ => none

def decPBooks? (s : String) : Option (List Incremental.PBook) :=
  if s.isEmpty then some [] else (s.splitOn ";").mapM fun b =>
    match b.splitOn "|" with
    | [n, srcs, outs] => do pure { name := (← decStr? n), sources := (← decStrList? srcs), outputs := (← decStrList? outs) }
    | _ => none

def c18rel (fn : String) (a : List String) : Option String := do
  match fn, a with
  | "c18.related", [_seed, path, books] =>
    let bs ← decPBooks? books
    let p ← decStr? path
    if !(Incremental.unknown bs [p]).isEmpty then some "err unknown-workbook" else
    let files := sortStrs ((Incremental.genWorkbook bs [p]).flatMap (·.outputs)).eraseDups
    some ("files " ++ ",".intercalate (files.map encStr))
  | "o.c18.related", [_seed, path, books, obs] =>
    -- judged against the statement directly: a conf file is (re)written iff its primary book reads the named workbook
    let bs ← decPBooks? books
    let p ← decStr? path
    let reads (b : Incremental.PBook) : Bool := b.name == p || b.sources.contains p
    if !bs.any reads then some (if obs.startsWith "err" then "holds" else "FAILS") else
    if !obs.startsWith "files " then some "FAILS" else
    let got ← decStrList? (obs.drop 6).toString
    let must := (bs.filter reads).flatMap (·.outputs)
    let mustNot := (bs.filter (fun b => !reads b)).flatMap (·.outputs)
    some (if must.all got.contains && !(mustNot.any fun f => got.contains f && !must.contains f) then "holds" else "FAILS")
  | _, _ => none

/-- `sequence:N`: the keys are N, N+1, … in order -/
def seqOK (start : Nat) : List Nat → Bool
  | [] => true
  | k :: ks => k == start && seqOK (start + 1) ks

/-- a map<uint32, string> field of a PATCH_MERGE document sheet (`Model.Patch.patch` on a one-field message, stated
directly): every entry the overlay states replaces main's entry of that key — whatever its value — or is added; the
rest of main's entries stay. Entries `k=v` joined by '.', listed by key. -/
def ydocMerged (main over : String) : String :=
  let ents (s : String) : List (String × String) :=
    if s.isEmpty then [] else (s.splitOn ".").map fun e => match e.splitOn "=" with
      | k :: rest => (k, "=".intercalate rest)
      | [] => (e, "")
  let o := ents over
  let kept := (ents main).filter fun e => !(o.any (·.1 == e.1))
  let all := (kept ++ o).toArray.qsort (fun a b => a.1 < b.1)
  ".".intercalate (all.toList.map fun e => e.1 ++ "=" ++ e.2)

/-- Scatter on document books: one file `<Book>_<Sheet>` per matched book (the primary `Hero` first, key 1), holding that
book's only entry; listed in byte order of the file names -/
def docScatterFiles (names : String) : String :=
  let books := "Hero" :: names.splitOn ","
  let files := (books.zipIdx.map fun (b, i) => s!"{b}_ItemConf\{{i + 1}}")
  ";".intercalate (files.toArray.qsort (fun a b => a < b)).toList

def c12seq (fn : String) (a : List String) : Option String := do
  match fn, a with
  | "c12.seq", [_layout, start, keys] =>
    let ks ← (keys.splitOn ".").mapM decNat?
    some (if seqOK (← decNat? start) ks then "ok" else "err 2003")
  | "c12.keyrange", [_layout, lo, hi, keys] =>
    let a ← decNat? lo; let b ← decNat? hi
    let ks ← (keys.splitOn ".").mapM decNat?
    some (if ks.all (fun k => a ≤ k && k ≤ b) then "ok" else "err 2004")
  | "o.c12.keyrange", [_layout, lo, hi, keys, obs] =>
    let a ← decNat? lo; let b ← decNat? hi
    let ks ← (keys.splitOn ".").mapM decNat?
    some (if ks.all (fun k => a ≤ k && k ≤ b) then (if obs == "ok" then "holds" else "FAILS")
          else (if obs == "err 2004" then "holds" else "FAILS"))
  | "c12.redecl", [lo1, hi1, lo2, hi2, v1, v2] =>
    let a ← decNat? lo1; let b ← decNat? hi1; let c ← decNat? lo2; let d ← decNat? hi2
    let x ← decNat? v1; let y ← decNat? v2
    -- differing redeclarations of one type name are refused by protogen; equal ones are one type
    some (if a != c || b != d then "protoerr" else if a ≤ x && x ≤ b && c ≤ y && y ≤ d then "ok" else "err 2004")
  | "o.c12.redecl", [lo1, hi1, lo2, hi2, v1, v2, obs] =>
    let a ← decNat? lo1; let b ← decNat? hi1; let c ← decNat? lo2; let d ← decNat? hi2
    let x ← decNat? v1; let y ← decNat? v2
    -- whatever protogen decides about the redeclaration: an accepted schema enforces EACH column's own range
    some (if obs == "protoerr" then (if a != c || b != d then "holds" else "FAILS")
          else if a ≤ x && x ≤ b && c ≤ y && y ≤ d then (if obs == "ok" then "holds" else "FAILS")
          else (if obs == "err 2004" then "holds" else "FAILS"))
  | "c13.emap", [re, rm, me, mm, oe, om] =>
    let e := if re == "1" && !oe.isEmpty then ydocMerged "" oe else ydocMerged me oe
    let m := if rm == "1" && !om.isEmpty then ydocMerged "" om else ydocMerged mm om
    some s!"dry=e:{e};m:{m} load=e:{e};m:{m}"
  | "o.c13.emap", [re, rm, me, mm, oe, om, obs] =>
    let e := if re == "1" && !oe.isEmpty then ydocMerged "" oe else ydocMerged me oe
    let m := if rm == "1" && !om.isEmpty then ydocMerged "" om else ydocMerged mm om
    some (if obs == s!"dry=e:{e};m:{m} load=e:{e};m:{m}" then "holds" else "FAILS")
  | "c13.ydoc", [main, over] => let m := ydocMerged main over; some s!"dry={m} load={m}"
  | "o.c13.ydoc", [main, over, obs] => let m := ydocMerged main over; some (if obs == s!"dry={m} load={m}" then "holds" else "FAILS")
  | "c11.docscatter", [_kind, names] => some (docScatterFiles names)
  | "o.c11.docscatter", [_kind, names, obs] => some (if obs == docScatterFiles names then "holds" else "FAILS")
  | "o.c12.seq", [_layout, start, keys, obs] =>
    let ks ← (keys.splitOn ".").mapM decNat?
    some (if seqOK (← decNat? start) ks then (if obs == "ok" then "holds" else "FAILS")
          else (if obs.startsWith "err" then "holds" else "FAILS"))
  | _, _ => none

/-- a list field of a patched table sheet: PATCH_REPLACE and stated by the overlay → the overlay's elements; otherwise
main's followed by the overlay's (`Model.Patch.patch` on a one-field message; stated directly here) -/
def c13tblList (repl : Bool) (main over : List String) : List String :=
  if repl && !over.isEmpty then over else main ++ over

def c13tbl (fn : String) (a : List String) : Option String := do
  let ids (s : String) : List String := if s.isEmpty then [] else s.splitOn "."
  match fn, a with
  | "c13.tbl", [rt, ri, mt, mi, ot, oi] =>
    let t := ".".intercalate (c13tblList (rt == "1") (ids mt) (ids ot))
    let i := ".".intercalate (c13tblList (ri == "1") (ids mi) (ids oi))
    let r := s!"t:{t};i:{i}"
    some s!"dry={r} load={r}"
  | "o.c13.tbl", [rt, ri, mt, mi, ot, oi, obs] =>
    let t := ".".intercalate (c13tblList (rt == "1") (ids mt) (ids ot))
    let i := ".".intercalate (c13tblList (ri == "1") (ids mi) (ids oi))
    let r := s!"t:{t};i:{i}"
    some (if obs == s!"dry={r} load={r}" then "holds" else "FAILS")
  | _, _ => none

def imp (fn : String) (a : List String) : Option String := do
  match fn, a with
  | "imp.grid", [style, g] =>
    let rows ← decGrid? g
    let out := if style == "xlsx" then Importer.xlsxGrid rows else Importer.csvGrid (style == "csv-all") rows
    some (s!"rows {encGrid out} max {out.length}x{Spec.Grid.width out}")
  | "imp.csvtext", [t] =>
    some (match CSV.readRows (← decStr? t) with
      | some rows => "rows " ++ encGrid rows
      | none => "err")
  | "o.imp.grid", [_style, g, obs] =>
    let rows ← decGrid? g
    if !obs.startsWith "rows " then some "FAILS" else
    let (gridS, maxS) ← (match (obs.drop 5).toString.splitOn " max " with
      | [g, m] => some (g, m) | _ => none)
    let got ← decGrid? gridS
    let (mr, mc) ← (match maxS.splitOn "x" with
      | [a, b] => do pure ((← decNat? a), (← decNat? b)) | _ => none)
    -- the declared extent must reach every row and every cell handed on
    if mr < got.length || mc < Spec.Grid.width got then some "FAILS" else
    some (if Spec.Grid.holds rows got then "holds" else "FAILS")
  | _, _ => none

def dispatch (line : String) : String :=
  match line.splitOn "\t" with
  | [] => "bad-op"
  | fn :: args =>
    let r :=
      if fn.startsWith "imp." || fn.startsWith "o.imp." then imp fn args
      else if fn.startsWith "c18.related" || fn.startsWith "o.c18.related" then c18rel fn args
      else if fn.startsWith "c12.seq" || fn.startsWith "o.c12.seq" || fn.startsWith "c12.redecl" || fn.startsWith "o.c12.redecl" || fn.startsWith "c12.keyrange" || fn.startsWith "o.c12.keyrange" || fn.startsWith "c11.docscatter" || fn.startsWith "o.c11.docscatter" || fn.startsWith "c13.ydoc" || fn.startsWith "o.c13.ydoc" || fn.startsWith "c13.emap" || fn.startsWith "o.c13.emap" then c12seq fn args
      else if fn.startsWith "c13.tbl" || fn.startsWith "o.c13.tbl" then c13tbl fn args
      else if fn.startsWith "c14." || fn.startsWith "o.c14." then c14 fn args
      else if fn.startsWith "c07.corrupt" || fn.startsWith "o.c07.corrupt" || fn.startsWith "w.c07." || fn.startsWith "c07.skip" || fn.startsWith "o.c07.skip" then tp fn args
      else if fn.startsWith "c07.book" || fn.startsWith "o.c07.book" then c11 fn args
      else if fn.startsWith "c07." || fn.startsWith "o.c07." then c07 fn args
      else if fn.startsWith "c03.reject" || fn.startsWith "o.c03.reject" then pg fn args
      else if fn.startsWith "c03." || fn.startsWith "o.c03." then c03 fn args
      else if fn.startsWith "c13.dry" || fn.startsWith "o.c13.dry" then pg fn args
      else if fn.startsWith "c13." || fn.startsWith "o.c13." then c13 fn args
      else if fn.startsWith "c12.refer" || fn.startsWith "o.c12.refer" then pg fn args
      else if fn.startsWith "c12.contig" || fn.startsWith "o.c12.contig" then tp fn args
      else if fn.startsWith "c12." || fn.startsWith "o.c12." then c12 fn args
      else if fn.startsWith "c20." || fn.startsWith "o.c20." then c20 fn args
      else if fn.startsWith "csv." || fn.startsWith "doc.bookname" then csvNames fn args
      else if fn.startsWith "c05." || fn.startsWith "o.c05." || fn.startsWith "c17.sepcell" || fn.startsWith "o.c17.sepcell" then c05 fn args
      else if fn.startsWith "c11." || fn.startsWith "o.c11." then c11 fn args
      else if fn.startsWith "doc." || fn.startsWith "o.doc." then doc fn args
      else if fn.startsWith "c17." || fn.startsWith "o.c17." || fn.startsWith "pg." || fn.startsWith "o.pg." || fn.startsWith "c10." || fn.startsWith "o.c10." || fn.startsWith "c09." || fn.startsWith "o.c09." || fn.startsWith "c19." || fn.startsWith "o.c19." || fn.startsWith "c02." || fn.startsWith "o.c02." || fn.startsWith "c15." || fn.startsWith "o.c15." || fn.startsWith "c08." || fn.startsWith "o.c08." then pg fn args
      else if fn.startsWith "c18." || fn.startsWith "o.c18." || fn.startsWith "c04.rewrite" || fn.startsWith "o.c04.rewrite" then c18 fn args
      else if fn.startsWith "c06.cell" || fn.startsWith "o.c06.cell" then c20 fn args
      else if fn.startsWith "c04." || fn.startsWith "o.c04." || fn.startsWith "c16." || fn.startsWith "o.c16." || fn.startsWith "c06." || fn.startsWith "o.c06." then c04 fn args
      else if fn.startsWith "tp." || fn.startsWith "o.tp." || fn.startsWith "c01." || fn.startsWith "o.c01." || fn.startsWith "w.c01." then tp fn args
      else none
    r.getD "bad-op"

partial def loop (hin : IO.FS.Stream) (hout : IO.FS.Stream) : IO Unit := do
  let line ← hin.getLine
  if line.isEmpty then return ()
  let line := if line.endsWith "\n" then (line.dropEnd 1).toString else line
  hout.putStrLn (dispatch line)
  loop hin hout

end Driver

def main : IO Unit := do
  let hin ← IO.getStdin
  let hout ← IO.getStdout
  Driver.loop hin hout
  hout.flush
