/-
Line-protocol helpers for the driver (core only).
Strings travel as `u<hex>.<hex>…` (code points), ints in decimal, lists joined by `,`.
-/
import TableauVerif.Model.Basic
namespace Driver
open TableauVerif

def hexDigit? (c : Char) : Option Nat :=
  if '0' ≤ c ∧ c ≤ '9' then some (c.toNat - 48)
  else if 'a' ≤ c ∧ c ≤ 'f' then some (c.toNat - 87)
  else if 'A' ≤ c ∧ c ≤ 'F' then some (c.toNat - 55)
  else none

def parseHex? (s : String) : Option Nat :=
  if s.isEmpty then none else
  s.toList.foldl (fun acc c => match acc, hexDigit? c with
    | some a, some d => some (a * 16 + d)
    | _, _ => none) (some 0)

def hexOf (n : Nat) : String := String.ofList (Nat.toDigits 16 n)

/-- decode `u61.62` -/
def decStr? (s : String) : Option Str :=
  match s.toList with
  | 'u' :: rest =>
    let body := String.ofList rest
    if body.isEmpty then some [] else
    (body.splitOn ".").foldr (fun h acc => match parseHex? h, acc with
      | some n, some l => some (n :: l)
      | _, _ => none) (some [])
  | _ => none

def encStr (s : Str) : String := "u" ++ ".".intercalate (s.map hexOf)

def decInt? (s : String) : Option Int := s.toInt?
def decNat? (s : String) : Option Nat := s.toNat?

def encOptStr : Option Str → String
  | none => "-"
  | some s => encStr s

def encBool (b : Bool) : String := if b then "1" else "0"
def decBool? (s : String) : Option Bool :=
  if s == "1" then some true else if s == "0" then some false else none

/-- plain Lean `String` for option values (no char-level reasoning needed there) -/
def decString? (s : String) : Option String := (decStr? s).map Str.toString
def encString (s : String) : String := encStr (Str.ofString s)

end Driver
